/* C07 -- task body state machine: exact iff-contracts on the real body.c */
#include "prelude.h"
#include "body.c"          /* the real /repo/src/emu/body.c */

/* ---- spec predicates (ghost, pure) ---- */
#define ST_ON_STACK(s) ((s) == BODY_ST_RUNNING || (s) == BODY_ST_PAUSED)
/* BODY_WF: a body is linked to a thread stack exactly while running or paused */
#define BODY_WF(b) (((b)->stack != NULL) == ST_ON_STACK((b)->state) && \
		(b)->state >= BODY_ST_CREATED && (b)->state <= BODY_ST_DEAD)

/* witness ghosts: mirror the inputs so that a failed obligation's trace names
 * the concrete call to replay natively */
int w_state, w_flags, w_has_stack, w_own_stack, w_is_top, w_top_state, w_top_flags, w_has_top, w_null;

#define BIND_WITNESS(stack, body) ( \
	w_null == ((body) == NULL) && \
	((body) == NULL || ( \
	w_state == (int)(body)->state && w_flags == (body)->flags && \
	w_has_stack == ((body)->stack != NULL) && w_own_stack == ((body)->stack == (stack)) && \
	w_is_top == ((stack)->top == (body)))) && \
	w_has_top == ((stack)->top != NULL) && \
	((stack)->top == NULL || (w_top_state == (int)(stack)->top->state && w_top_flags == (stack)->top->flags)))

/* utlist doubly-linked list: head->prev is the tail, tail->next is NULL.
 * Shape of the heap the four transitions run on: a stack, a body (maybe NULL),
 * and a top element which is either absent, the body itself, or another body
 * whose own links are a well-formed utlist head (prev of head = tail). */
#define SHAPE(stack, body) \
	__CPROVER_is_fresh(stack, sizeof(*stack)) && \
	((body) == NULL || __CPROVER_is_fresh(body, sizeof(*body))) && \
	((stack)->top == NULL || ((body) != NULL && __CPROVER_pointer_equals((stack)->top, (body))) || \
		__CPROVER_is_fresh((stack)->top, sizeof(*(stack)->top))) && \
	((body) == NULL || BODY_WF(body)) && \
	((stack)->top == NULL || (BODY_WF((stack)->top) && (stack)->top->stack == (stack))) && \
	((body) == NULL || (stack)->top != (body) || (body)->stack == (stack)) && \
	((stack)->top == NULL || (stack)->top->next != NULL || __CPROVER_pointer_equals((stack)->top->prev, (stack)->top)) && \
	((stack)->top == NULL || (stack)->top->next == NULL || \
		(__CPROVER_is_fresh((stack)->top->next, sizeof(struct body)) && \
		 (__CPROVER_pointer_equals((stack)->top->prev, (stack)->top->next) || __CPROVER_is_fresh((stack)->top->prev, sizeof(struct body)))))

/* ---------------- body_execute ---------------- */
#define LEGAL_EXECUTE(stack, body) ( (body) != NULL && \
	((body)->state == BODY_ST_CREATED || ((body)->state == BODY_ST_DEAD && ((body)->flags & BODY_FLAG_RESURRECT))) && \
	(body)->stack == NULL && \
	((stack)->top == NULL || (stack)->top->state != BODY_ST_RUNNING || ((stack)->top->flags & BODY_FLAG_RELAX_NESTING)) )

int g_legal;   /* value of the legality predicate in the pre-state */
struct body *g_old_top;
long g_old_iter;
int g_old_state;

int c_body_execute(struct body_stack *stack, struct body *body)
__CPROVER_requires(SHAPE(stack, body))
__CPROVER_requires(BIND_WITNESS(stack, body) && DIAG_PRE)
__CPROVER_requires(g_legal == LEGAL_EXECUTE(stack, body))
__CPROVER_requires(g_old_top == stack->top)
__CPROVER_requires(body == NULL || (g_old_iter == body->iteration && g_old_state == (int) body->state && body->iteration < 0x7fffffffffffffffL))
__CPROVER_assigns(stack->top, g_diag, g_err, g_warn)
__CPROVER_assigns(body != NULL: body->state, body->iteration, body->stack, body->next, body->prev)
__CPROVER_assigns(stack->top != NULL: stack->top->prev)
/* accepted exactly when the transition is legal */
__CPROVER_ensures((__CPROVER_return_value == 0) == (g_legal != 0))
__CPROVER_ensures(__CPROVER_return_value == 0 || __CPROVER_return_value == -1)
/* effect of an accepted execute: running, on this stack, on top, old top below */
__CPROVER_ensures(__CPROVER_return_value != 0 || (
	body->state == BODY_ST_RUNNING && body->stack == stack && stack->top == body &&
	body->next == g_old_top && BODY_WF(body) &&
	body->iteration == g_old_iter + (g_old_state == BODY_ST_DEAD ? 1 : 0)))
/* a refused execute leaves the stack alone and says why */
__CPROVER_ensures(__CPROVER_return_value == 0 || (stack->top == g_old_top && g_err > __CPROVER_old(g_err)))
;

void h_body_execute(void)
{
	struct body_stack *stack;
	struct body *body;
	int r = body_execute(stack, body);
	if (r == 0) REACH("execute accepted");
	if (r == 0 && g_old_top != NULL) REACH("execute accepted over a non-empty stack");
	if (r == 0 && g_old_state == BODY_ST_DEAD) REACH("execute accepted on a dead resurrectable body");
	if (r != 0 && !w_null) REACH("execute refused");
}

/* ---------------- body_pause ---------------- */
#define LEGAL_PAUSE(stack, body) ( (body) != NULL && ((body)->flags & BODY_FLAG_PAUSE) && \
	(body)->state == BODY_ST_RUNNING && (body)->stack == (stack) && (stack)->top == (body) )

int c_body_pause(struct body_stack *stack, struct body *body)
__CPROVER_requires(SHAPE(stack, body))
__CPROVER_requires(BIND_WITNESS(stack, body) && DIAG_PRE)
__CPROVER_requires(g_legal == LEGAL_PAUSE(stack, body))
__CPROVER_requires(g_old_top == stack->top)
__CPROVER_requires(body == NULL || g_old_state == (int) body->state)
__CPROVER_assigns(g_diag, g_err, g_warn)
__CPROVER_assigns(body != NULL: body->state)
__CPROVER_ensures((__CPROVER_return_value == 0) == (g_legal != 0))
__CPROVER_ensures(__CPROVER_return_value == 0 || __CPROVER_return_value == -1)
__CPROVER_ensures(__CPROVER_return_value != 0 || (body->state == BODY_ST_PAUSED && BODY_WF(body) && stack->top == body))
__CPROVER_ensures(__CPROVER_return_value == 0 || body == NULL || ((int) body->state == g_old_state && g_err > __CPROVER_old(g_err)))
;

void h_body_pause(void)
{
	struct body_stack *stack;
	struct body *body;
	int r = body_pause(stack, body);
	if (r == 0) REACH("pause accepted");
	if (r != 0 && !w_null && w_state == BODY_ST_RUNNING) REACH("pause of a running body refused");
}

/* ---------------- body_resume ---------------- */
#define LEGAL_RESUME(stack, body) ( (body) != NULL && \
	(body)->state == BODY_ST_PAUSED && (body)->stack == (stack) && (stack)->top == (body) )

int c_body_resume(struct body_stack *stack, struct body *body)
__CPROVER_requires(SHAPE(stack, body))
__CPROVER_requires(BIND_WITNESS(stack, body) && DIAG_PRE)
__CPROVER_requires(g_legal == LEGAL_RESUME(stack, body))
__CPROVER_requires(body == NULL || g_old_state == (int) body->state)
__CPROVER_assigns(g_diag, g_err, g_warn)
__CPROVER_assigns(body != NULL: body->state)
__CPROVER_ensures((__CPROVER_return_value == 0) == (g_legal != 0))
__CPROVER_ensures(__CPROVER_return_value == 0 || __CPROVER_return_value == -1)
__CPROVER_ensures(__CPROVER_return_value != 0 || (body->state == BODY_ST_RUNNING && BODY_WF(body) && stack->top == body))
__CPROVER_ensures(__CPROVER_return_value == 0 || body == NULL || ((int) body->state == g_old_state && g_err > __CPROVER_old(g_err)))
;

void h_body_resume(void)
{
	struct body_stack *stack;
	struct body *body;
	int r = body_resume(stack, body);
	if (r == 0) REACH("resume accepted");
	if (r != 0 && !w_null && w_state == BODY_ST_PAUSED) REACH("resume of a paused body refused");
}

/* ---------------- body_end ---------------- */
#define LEGAL_END(stack, body) ( (body) != NULL && \
	(body)->state == BODY_ST_RUNNING && (body)->stack == (stack) && (stack)->top == (body) )

struct body *g_old_next;

int c_body_end(struct body_stack *stack, struct body *body)
__CPROVER_requires(SHAPE(stack, body))
__CPROVER_requires(BIND_WITNESS(stack, body) && DIAG_PRE)
__CPROVER_requires(g_legal == LEGAL_END(stack, body))
__CPROVER_requires(g_old_top == stack->top)
__CPROVER_requires(body == NULL || (g_old_state == (int) body->state && g_old_next == body->next))
__CPROVER_assigns(stack->top, g_diag, g_err, g_warn)
__CPROVER_assigns(body != NULL: body->state, body->stack)
__CPROVER_assigns(body != NULL && stack->top == body && body->next != NULL: body->next->prev)
__CPROVER_ensures((__CPROVER_return_value == 0) == (g_legal != 0))
__CPROVER_ensures(__CPROVER_return_value == 0 || __CPROVER_return_value == -1)
/* accepted end: dead, unlinked from the thread, the body below becomes the top */
__CPROVER_ensures(__CPROVER_return_value != 0 || (body->state == BODY_ST_DEAD && body->stack == NULL && BODY_WF(body) && stack->top == g_old_next))
__CPROVER_ensures(__CPROVER_return_value == 0 || (stack->top == g_old_top && (body == NULL || ((int) body->state == g_old_state && g_err > __CPROVER_old(g_err)))))
;

void h_body_end(void)
{
	struct body_stack *stack;
	struct body *body;
	int r = body_end(stack, body);
	if (r == 0) REACH("end accepted");
	if (r == 0 && g_old_next != NULL) REACH("end accepted with a body below");
	if (r != 0 && !w_null) REACH("end refused");
}
