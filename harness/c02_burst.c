/* C02 (emulator side) -- burst events: a protocol-conformant program may emit any number of
 * OB. burst events; pre_burst (src/emu/ovni/event.c) keeps a window of MAX_BURSTS timestamps
 * and must never refuse an event because of the count.
 * Invariant: 0 <= nbursts < MAX_BURSTS.  Under it pre_burst returns 0, stores the event time at
 * burst_time[nbursts], and nbursts' = (nbursts + 1) mod MAX_BURSTS (the window is reset when it
 * fills) -- so the invariant is re-established and "too many bursts" is unreachable for every
 * history.  The two 99-iteration statistics loops are closed by loop contracts. */
#include "prelude.h"
#include "extend.c"        /* the real extend_get */
/* libc qsort: assumed contract (sorted permutation); only the statistics depend on it */
unsigned g_qsort_calls;
void verif_qsort(void *base, size_t n, size_t sz) { (void) base; (void) n; (void) sz; g_qsort_calls++; }
#define qsort(b, n, s, c) verif_qsort((b), (n), (s))
#include "ovni/event.c"    /* the real /repo/src/emu/ovni/event.c */

int w_nbursts;
WITNESS(pre_burst);
struct ovni_thread *g_oth;   /* the ovni extension of the thread (named once, pitfall 21) */
#define CLK_OK(x) ((x) > -(1L << 61) && (x) < (1L << 61))
int c_pre_burst(struct emu *emu)
__CPROVER_requires(__CPROVER_is_fresh(emu, sizeof(*emu)))
__CPROVER_requires(__CPROVER_is_fresh(emu->thread, sizeof(struct thread)))
__CPROVER_requires(__CPROVER_is_fresh(emu->ev, sizeof(struct emu_ev)))
__CPROVER_requires(__CPROVER_is_fresh(emu->loom, sizeof(struct loom)))
__CPROVER_requires(__CPROVER_is_fresh(g_oth, sizeof(struct ovni_thread)))
__CPROVER_requires(__CPROVER_pointer_equals(emu->thread->ext.ctx['O'], g_oth))
__CPROVER_requires(g_oth->nbursts >= 0 && g_oth->nbursts < MAX_BURSTS)
/* corrected times of one trace span far less than 2^61 ns (observation O1 otherwise) */
__CPROVER_requires(CLK_OK(emu->ev->dclock) && DIAG_PRE)
__CPROVER_requires(WBIND(pre_burst, w_nbursts == g_oth->nbursts))
__CPROVER_assigns(g_oth->nbursts, __CPROVER_object_whole(g_oth->burst_time), DIAG_FRAME, g_qsort_calls)
__CPROVER_ensures(__CPROVER_return_value == 0)
__CPROVER_ensures(g_oth->nbursts == (__CPROVER_old(g_oth->nbursts) + 1) % MAX_BURSTS)
__CPROVER_ensures(g_oth->nbursts >= 0 && g_oth->nbursts < MAX_BURSTS)
__CPROVER_ensures(g_err == __CPROVER_old(g_err))
;
void h_pre_burst(void)
{
	struct emu *emu;
	WITNESS_ON(pre_burst);
	int r = pre_burst(emu);
	if (r == 0 && w_nbursts == MAX_BURSTS - 1) REACH("the window filled and was reset");
	if (r == 0 && w_nbursts == 0) REACH("first burst of a window");
}
