/* C04 -- shared ghost state and spec predicates (no repository code here).
 * Included by harness/c04_chan.c, c04_thread.c, c04_event.c, c04_finish.c
 * right after prelude.h and BEFORE the real .c file. */
#ifndef C04_SPEC_H
#define C04_SPEC_H

#include "value.h"
#include "chan.h"

/* pitfall 9: CBMC's memcmp over struct value (anonymous {int64,double} union)
 * reports field-equal values as different; field equality is the same relation
 * on this ABI (no padding). */
_Static_assert(sizeof(struct value) == 16, "struct value has padding: value_is_equal rebinding unsound");
#define value_is_equal(a, b) ((a)->type == (b)->type && (a)->i == (b)->i)

/* ---- dirty callback: the only function-pointer callee of chan_set --------
 * The real callback is bay.c:cb_chan_is_dirty (adds the channel to the bay's
 * dirty list).  Most general stand-in: any result; it counts its calls and its
 * failures in ghosts so that contracts can say "refused only because the
 * callback refused". */
unsigned g_cb_calls;   /* number of dirty-callback invocations */
unsigned g_cb_fails;   /* number of those that returned non-zero */
/* counter ranges (no wrap-around): every level of the call tree gets its own
 * head-room so that a callee's precondition still holds after its siblings ran:
 * handlers < 1e6, thread_* < 2e6, chan_set < 3e6 */
#define CNT_PRE(n) (g_diag < (n) && g_err < (n) && g_warn < (n) && g_cb_calls < (n) && g_cb_fails < (n))
/* diagnostics after a call that issues at most k of them, all of them errors */
#define DIAG_POST(k) (g_err >= __CPROVER_old(g_err) && g_err <= __CPROVER_old(g_err) + (k) && \
	g_diag - __CPROVER_old(g_diag) == g_err - __CPROVER_old(g_err) && g_warn == __CPROVER_old(g_warn))

int nondet_cb_result(void);
static int
stub_dirty_cb(struct chan *chan, void *arg)
{
	(void) chan; (void) arg;
	int r = nondet_cb_result();
	g_cb_calls++;
	if (r != 0)
		g_cb_fails++;
	return r;
}

/* ---- spec readers: never read chan->data.value.X directly (pitfall 9) ---- */
static inline int64_t spec_chan_type(const struct chan *c) { struct value v = c->data.value; return v.type; }
static inline int64_t spec_chan_i(const struct chan *c)    { struct value v = c->data.value; return v.i; }
#define CH_HOLDS(c, vt, vi) (spec_chan_type(c) == (int64_t)(vt) && spec_chan_i(c) == (int64_t)(vi))
#define CH_LAST_IS(c, vt, vi) ((c)->last_value.type == (int64_t)(vt) && (c)->last_value.i == (int64_t)(vi))

/* ---- chan_set, as a function of the channel PRE-state --------------------
 * `d` is the pre-state is_dirty (so the same text serves requires/assigns,
 * where it is (c)->is_dirty, and ensures, where it is __CPROVER_old(..)). */
#define CH_CB_OK(c) ((c)->dirty_cb == NULL || (c)->dirty_cb == stub_dirty_cb)
#define CH_DUP(c, vt, vi)      (!(c)->prop[CHAN_ALLOW_DUP] && CH_LAST_IS(c, vt, vi))
/* refused outright */
#define CH_REFUSES(c, d, vt, vi) ((c)->type != CHAN_SINGLE || ((d) && !(c)->prop[CHAN_DIRTY_WRITE]) || \
	(CH_DUP(c, vt, vi) && !(c)->prop[CHAN_IGNORE_DUP]))
/* accepted without doing anything (duplicate of the last flushed value) */
#define CH_IGNORES(c, d, vt, vi) (!CH_REFUSES(c, d, vt, vi) && CH_DUP(c, vt, vi))
/* the value is stored */
#define CH_WRITES(c, d, vt, vi)  (!CH_REFUSES(c, d, vt, vi) && !CH_DUP(c, vt, vi))
/* ... and the callback runs */
#define CH_CALLS(c, d, vt, vi)   (CH_WRITES(c, d, vt, vi) && !(d) && (c)->dirty_cb != NULL)

/* chan_set, caller-facing and enforced on the real chan.c (group chan_set).
 * Self-contained: ensures use only __CPROVER_old of simple lvalues, parameters
 * and memory outside the frame (type, prop, last_value, dirty_cb). */
#define CHD0 __CPROVER_old(chan->is_dirty)
/* witnesses of chan_set (bound only in the group that enforces it) */
int w_ch_type, w_ch_dirty, w_ch_p_dirty_write, w_ch_p_allow_dup, w_ch_p_ignore_dup, w_ch_has_cb;
long w_ch_last_type, w_ch_last_i, w_ch_val_type, w_ch_val_i;
WITNESS(chan_set);
int cr_chan_set(struct chan *chan, struct value value)
__CPROVER_requires(__CPROVER_is_fresh(chan, sizeof(*chan)) && CH_CB_OK(chan) && CNT_PRE(3000000u))
__CPROVER_requires(WBIND(chan_set, w_ch_type == (int) chan->type && w_ch_dirty == chan->is_dirty &&
	w_ch_p_dirty_write == chan->prop[CHAN_DIRTY_WRITE] && w_ch_p_allow_dup == chan->prop[CHAN_ALLOW_DUP] &&
	w_ch_p_ignore_dup == chan->prop[CHAN_IGNORE_DUP] && w_ch_has_cb == (chan->dirty_cb != NULL) &&
	w_ch_last_type == chan->last_value.type && w_ch_last_i == chan->last_value.i &&
	w_ch_val_type == value.type && w_ch_val_i == value.i))
__CPROVER_assigns(CH_WRITES(chan, chan->is_dirty, value.type, value.i): chan->is_dirty, chan->data.value)
__CPROVER_assigns(CH_CALLS(chan, chan->is_dirty, value.type, value.i): g_cb_calls, g_cb_fails)
__CPROVER_assigns(DIAG_FRAME)
__CPROVER_ensures(__CPROVER_return_value == 0 || __CPROVER_return_value == -1)
/* exact refusal condition */
__CPROVER_ensures((__CPROVER_return_value != 0) ==
	(CH_REFUSES(chan, CHD0, value.type, value.i) || g_cb_fails != __CPROVER_old(g_cb_fails)))
__CPROVER_ensures((__CPROVER_return_value == 0 ? g_err == __CPROVER_old(g_err) : g_err > __CPROVER_old(g_err)) && DIAG_POST(2))
/* a stored value is the value given; the channel is then dirty */
__CPROVER_ensures(!CH_WRITES(chan, CHD0, value.type, value.i) ||
	(CH_HOLDS(chan, value.type, value.i) && chan->is_dirty != 0 &&
	 (CHD0 ? chan->is_dirty == CHD0 : chan->is_dirty == 1)))
/* the callback runs exactly when a clean channel becomes dirty, once */
__CPROVER_ensures(!CH_CALLS(chan, CHD0, value.type, value.i) ||
	(g_cb_calls == __CPROVER_old(g_cb_calls) + 1 && g_cb_fails <= __CPROVER_old(g_cb_fails) + 1 &&
	 g_cb_fails >= __CPROVER_old(g_cb_fails)))
/* (refused / ignored: nothing is assignable, see the conditional frame) */
;

#endif
