/* c05_loom.h -- C05: self-contained contract of loom_get_cpu (loom.c): the CPU
 * a logical index names.  Proved in group "loom_get_cpu" (harness/c05_loom.c);
 * replaces the call in the affinity handlers.  Needs loom.h before it. */
#ifndef C05_LOOM_H
#define C05_LOOM_H

/* after loom_init_end: cpus_array holds ncpus entries */
#define LOOM_CPUS_WF(loom) ((loom)->ncpus <= 0x7fffffffUL && \
	((loom)->ncpus == 0 || __CPROVER_is_fresh((loom)->cpus_array, (loom)->ncpus * sizeof(struct cpu *))))

WITNESS(loom_get_cpu);
int w_lg_index;
unsigned long w_lg_ncpus;
int w_lg_cell_null;               /* replay: the table entry an in-range index names is empty */

struct cpu *cr_loom_get_cpu(struct loom *loom, int index)
__CPROVER_requires(__CPROVER_is_fresh(loom, sizeof(*loom)) && LOOM_CPUS_WF(loom))
/* the entries of the table are CPUs (or NULL) */
__CPROVER_requires(!(index >= 0 && (size_t) index < loom->ncpus) || loom->cpus_array[index] == NULL ||
	__CPROVER_is_fresh(loom->cpus_array[index], sizeof(struct cpu)))
__CPROVER_requires(WBIND(loom_get_cpu, w_lg_index == index && w_lg_ncpus == loom->ncpus &&
	w_lg_cell_null == (!(index >= 0 && (size_t) index < loom->ncpus) || loom->cpus_array[index] == NULL)))
__CPROVER_assigns()
/* (pointer results are stated with __CPROVER_pointer_equals so that a caller
 * which has this contract in place of the call can dereference the result:
 * HOWTO pitfall 1) */
/* index -1 names the loom's virtual CPU */
__CPROVER_ensures(index != -1 || __CPROVER_pointer_equals(__CPROVER_return_value, &loom->vcpu))
/* any other index outside [0, ncpus) names no CPU */
__CPROVER_ensures(!(index < -1 || (index >= 0 && (size_t) index >= loom->ncpus)) || __CPROVER_return_value == NULL)
/* an index in range names the CPU stored at that position */
__CPROVER_ensures(!(index >= 0 && (size_t) index < loom->ncpus) ||
	(loom->cpus_array[index] == NULL && __CPROVER_return_value == NULL) ||
	(loom->cpus_array[index] != NULL && __CPROVER_pointer_equals(__CPROVER_return_value, loom->cpus_array[index])))
;

#endif
