/* C02 (metadata completeness) -- the runtime writes every key the emulator needs,
 * and marks a stream finished only in ovni_thread_free.  parson is a trusted stub. */
#include "rt_common.h"
#include "rt_parson_stub.h"
#include "ovni.c"

/* thread_metadata_populate: returns (else dies) only with every mandatory key set
 * to the value the emulator expects, and never sets the finished marker */
void c_thread_metadata_populate(void)
__CPROVER_requires(g_keys == 0)
__CPROVER_assigns(g_keys, g_v_version, g_v_tid, g_v_pid, g_v_appid, g_part_is_thread, g_v_loom, g_parson_failed, g_died)
__CPROVER_ensures(g_keys == K_MANDATORY)
__CPROVER_ensures(g_v_version == OVNI_METADATA_VERSION && g_part_is_thread)
__CPROVER_ensures(g_v_tid == (double) rthread.tid && g_v_pid == (double) rproc.pid && g_v_appid == (double) rproc.app)
__CPROVER_ensures(g_v_loom == rproc.loom)
;
void h_thread_metadata_populate(void)
{
	thread_metadata_populate();
	REACH("thread_metadata_populate returns");
}

/* thread_metadata_init: the initial metadata is stored exactly once, complete but
 * WITHOUT the finished marker (so a stream killed later is detected as partial) */
void c_thread_metadata_init(void)
__CPROVER_requires(g_keys == 0 && g_store_calls == 0 && g_store_failed == 0)
__CPROVER_assigns(g_keys, g_v_version, g_v_tid, g_v_pid, g_v_appid, g_part_is_thread, g_v_loom, g_parson_failed, g_died,
	g_store_calls, g_keys_at_store, g_finished_at_store, g_store_failed, rthread.meta)
__CPROVER_ensures(g_store_calls == 1 && !g_store_failed)
__CPROVER_ensures(g_keys_at_store == K_MANDATORY)
;
void h_thread_metadata_init(void)
{
	thread_metadata_init();
	REACH("thread_metadata_init returns");
}

/* ovni_thread_free (direct mode, no CPU list): the metadata is stored exactly once
 * more, now complete AND with ovni.finished = 1 (set before the store), and the
 * thread ends finished / not ready.  It dies if any parson call fails. */
int close(int fd) { (void) fd; return nondet_int(); }
void cr_move_thdir_to_final(const char *thdir, const char *thdir_final)
__CPROVER_requires(1)
__CPROVER_assigns()
__CPROVER_ensures(1)
;
void c_ovni_thread_free(void)
__CPROVER_requires((g_keys & (K_MANDATORY | K_FINISHED)) == K_MANDATORY && g_store_failed == 0 && g_store_calls < 1000u)
__CPROVER_requires(rthread.cpus == NULL && rproc.move_to_final == 0)
__CPROVER_requires(rthread.evbuf == NULL || __CPROVER_is_fresh(rthread.evbuf, 64))
__CPROVER_assigns(g_keys, g_v_finished, g_v_rank, g_v_nranks, g_parson_failed, g_died, g_store_calls, g_keys_at_store,
	g_finished_at_store, g_store_failed, rthread.evbuf, rthread.streamfd, rthread.finished, rthread.ready, g_diag, g_warn)
__CPROVER_frees(rthread.evbuf)
__CPROVER_ensures(__CPROVER_old(rthread.ready) && !__CPROVER_old(rthread.finished))
__CPROVER_ensures(g_store_calls == __CPROVER_old(g_store_calls) + 1 && !g_store_failed)
__CPROVER_ensures((g_keys_at_store & (K_MANDATORY | K_FINISHED)) == (K_MANDATORY | K_FINISHED) && g_finished_at_store == 1.0)
__CPROVER_ensures(rthread.finished == 1 && rthread.ready == 0)
/* a rank set with ovni_proc_set_rank reaches the stored metadata whether or not this thread
 * declared CPUs (another process of the loom may declare them) */
__CPROVER_ensures(!rthread.rank_set || ((g_keys_at_store & (K_RANK | K_NRANKS)) == (K_RANK | K_NRANKS) &&
	g_v_rank == (double) rthread.rank && g_v_nranks == (double) rthread.nranks))
;
void h_ovni_thread_free(void)
{
	ovni_thread_free();
	REACH("ovni_thread_free returns");
	if (g_keys & K_RANK) REACH("rank was stored too");
	if (!(g_keys & K_RANK)) REACH("no rank set");
}
