/* C02 (metadata completeness) -- the runtime writes every key the emulator needs,
 * and marks a stream finished only in ovni_thread_free.  parson is a trusted stub. */
#include "rt_common.h"
#include "rt_parson_stub.h"
#include "ovni.c"

/* thread_metadata_populate: returns (else dies) only with every mandatory key set
 * to the value the emulator expects, and never sets the finished marker */
void c_thread_metadata_populate(void)
__CPROVER_requires(g_keys == 0)
__CPROVER_assigns(g_keys, g_v_version, g_v_tid, g_v_pid, g_v_appid, g_part_is_thread, g_v_loom, g_parson_failed, g_died)
__CPROVER_ensures(g_keys == K_MANDATORY)
__CPROVER_ensures(g_v_version == OVNI_METADATA_VERSION && g_part_is_thread)
__CPROVER_ensures(g_v_tid == (double) rthread.tid && g_v_pid == (double) rproc.pid && g_v_appid == (double) rproc.app)
__CPROVER_ensures(g_v_loom == rproc.loom)
;
void h_thread_metadata_populate(void)
{
	thread_metadata_populate();
	REACH("thread_metadata_populate returns");
}

/* thread_metadata_init: the initial metadata is stored exactly once, complete but
 * WITHOUT the finished marker (so a stream killed later is detected as partial) */
void c_thread_metadata_init(void)
__CPROVER_requires(g_keys == 0 && g_store_calls == 0 && g_store_failed == 0)
__CPROVER_assigns(g_keys, g_v_version, g_v_tid, g_v_pid, g_v_appid, g_part_is_thread, g_v_loom, g_parson_failed, g_died,
	g_store_calls, g_keys_at_store, g_finished_at_store, g_store_failed, rthread.meta)
__CPROVER_ensures(g_store_calls == 1 && !g_store_failed)
__CPROVER_ensures(g_keys_at_store == K_MANDATORY)
;
void h_thread_metadata_init(void)
{
	thread_metadata_init();
	REACH("thread_metadata_init returns");
}
