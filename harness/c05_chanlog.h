/* c05_chanlog.h -- C05: the self-contained contract cr_chan_set of the real
 * chan_set (chan.c) and a ghost log of channel writes.
 *
 * Include order in a C05 harness:
 *     #include "prelude.h"
 *     #include "chan.h"
 *     #include "harness/c05_chanlog.h"    (this file)
 *     #include "<real unit>.c"
 *
 * cr_chan_set is proved against the real chan.c in group "chan_set"
 * (harness/c05_chan.c, which defines C05_NO_REBIND) and replaces chan_set in
 * every other C05 group.
 *
 * Ghost log.  The real chan_set keeps no history, so "which channel received
 * which value" is recorded by ghost code: in the units that CALL chan_set
 * (cpu.c, thread.c) the call sites are rebound BY MACRO to logged_chan_set(),
 * which calls the real chan_set (there: its contract) and appends
 * (channel, value, result) to the log.  The log is written by nothing else and
 * read by no repository code. */
#ifndef C05_CHANLOG_H
#define C05_CHANLOG_H

/* ---- dirty callback model (real one: bay.c cb_chan_is_dirty) ---- */
unsigned g_cb_calls;
int g_cb_ret;
static int stub_dirty_cb(struct chan *chan, void *arg)
{
	(void) chan; (void) arg;
	g_cb_calls++;
	g_cb_ret = nondet_int();
	return g_cb_ret;
}
#define CB_OK(c) ((c)->dirty_cb == NULL || (c)->dirty_cb == stub_dirty_cb)

/* spec readers: through a struct copy (pitfall 9) */
static inline long spec_chan_type(struct chan *c) { struct value v = c->data.value; return v.type; }
static inline long spec_chan_i(struct chan *c) { struct value v = c->data.value; return v.i; }
static inline long spec_last_type(struct chan *c) { struct value v = c->last_value; return v.type; }
static inline long spec_last_i(struct chan *c) { struct value v = c->last_value; return v.i; }

/* Guards of a write, as predicates of (channel, value, is_dirty before the
 * call).  Every field read here but is_dirty is outside chan_set's frame, so
 * the same text is valid in the post-state with old(is_dirty). */
#define CS_DUP(c, v) (!(c)->prop[CHAN_ALLOW_DUP] && \
		spec_last_type(c) == (v).type && spec_last_i(c) == (v).i)
#define CS_GUARDS(c, dirty) ((c)->type == CHAN_SINGLE && \
		!((dirty) && !(c)->prop[CHAN_DIRTY_WRITE]))
/* refused by a guard */
#define CS_REFUSED(c, v, dirty) (!CS_GUARDS(c, dirty) || (CS_DUP(c, v) && !(c)->prop[CHAN_IGNORE_DUP]))
/* accepted without writing (ignored duplicate) */
#define CS_IGNORED(c, v, dirty) (CS_GUARDS(c, dirty) && CS_DUP(c, v) && (c)->prop[CHAN_IGNORE_DUP])
/* the value is stored */
#define CS_WRITES(c, v, dirty) (CS_GUARDS(c, dirty) && !CS_DUP(c, v))

#define CS_FRAME g_cb_calls, g_cb_ret, DIAG_FRAME

WITNESS(chan_set);
int w_cs_type, w_cs_dirty, w_cs_dw, w_cs_ad, w_cs_id, w_cs_hascb;
long w_cs_vtype, w_cs_vi, w_cs_ltype, w_cs_li;

int cr_chan_set(struct chan *chan, struct value value)
__CPROVER_requires(__CPROVER_is_fresh(chan, sizeof(*chan)))
__CPROVER_requires(CB_OK(chan) && g_cb_calls < 1000000u && DIAG_PRE)
__CPROVER_requires(WBIND(chan_set, w_cs_type == (int) chan->type && w_cs_dirty == chan->is_dirty &&
	w_cs_dw == chan->prop[CHAN_DIRTY_WRITE] && w_cs_ad == chan->prop[CHAN_ALLOW_DUP] &&
	w_cs_id == chan->prop[CHAN_IGNORE_DUP] && w_cs_hascb == (chan->dirty_cb != NULL) &&
	w_cs_vtype == value.type && w_cs_vi == value.i &&
	w_cs_ltype == spec_last_type(chan) && w_cs_li == spec_last_i(chan)))
__CPROVER_assigns(CS_FRAME)
__CPROVER_assigns(CS_WRITES(chan, value, chan->is_dirty): chan->data.value, chan->is_dirty)
__CPROVER_ensures(__CPROVER_return_value == 0 || __CPROVER_return_value == -1)
/* refused by a guard: error (nothing written: conditional frame) */
__CPROVER_ensures(!CS_REFUSED(chan, value, __CPROVER_old(chan->is_dirty)) ||
	(__CPROVER_return_value == -1 && g_cb_calls == __CPROVER_old(g_cb_calls)))
/* ignored duplicate: accepted, nothing written, callback not run */
__CPROVER_ensures(!CS_IGNORED(chan, value, __CPROVER_old(chan->is_dirty)) ||
	(__CPROVER_return_value == 0 && g_cb_calls == __CPROVER_old(g_cb_calls)))
/* stored: the channel holds the value and is dirty; the dirty callback runs
 * exactly when the channel was clean, and its failure is the only failure */
__CPROVER_ensures(!CS_WRITES(chan, value, __CPROVER_old(chan->is_dirty)) || (
	spec_chan_type(chan) == value.type && spec_chan_i(chan) == value.i &&
	((__CPROVER_old(chan->is_dirty) || chan->dirty_cb == NULL)
		? (__CPROVER_return_value == 0 && g_cb_calls == __CPROVER_old(g_cb_calls))
		: (g_cb_calls == __CPROVER_old(g_cb_calls) + 1 &&
		   (__CPROVER_return_value == 0) == (g_cb_ret == 0))) &&
	(__CPROVER_old(chan->is_dirty) ? chan->is_dirty == __CPROVER_old(chan->is_dirty) : chan->is_dirty == 1)))
/* diagnostics: an error is reported exactly on failure (at most two lines) */
__CPROVER_ensures(__CPROVER_return_value == 0 ? g_err == __CPROVER_old(g_err) :
	(g_err > __CPROVER_old(g_err) && g_err <= __CPROVER_old(g_err) + 2u))
__CPROVER_ensures(g_warn == __CPROVER_old(g_warn) &&
	g_diag - __CPROVER_old(g_diag) == g_err - __CPROVER_old(g_err))
;

/* ---- ghost log: one entry per chan_set call, in call order ---- */
#define CS_LOGN 16
unsigned g_cs_n;                    /* number of chan_set calls so far */
struct chan *g_cs_chan[CS_LOGN];    /* channel written by call k */
long g_cs_type[CS_LOGN];            /* value.type handed to call k */
long g_cs_i[CS_LOGN];               /* value.i handed to call k */
int g_cs_ret[CS_LOGN];              /* result of call k */
#define CS_LOG_FRAME g_cs_n, __CPROVER_object_whole(g_cs_chan), __CPROVER_object_whole(g_cs_type), \
		__CPROVER_object_whole(g_cs_i), __CPROVER_object_whole(g_cs_ret)

static inline int logged_chan_set(struct chan *chan, struct value value)
{
	int r = (chan_set)(chan, value);
	__CPROVER_assert(g_cs_n < CS_LOGN, "ghost channel log has room");
	g_cs_chan[g_cs_n] = chan;
	g_cs_type[g_cs_n] = value.type;
	g_cs_i[g_cs_n] = value.i;
	g_cs_ret[g_cs_n] = r;
	g_cs_n++;
	return r;
}
#ifndef C05_NO_REBIND
#define chan_set(c, v) logged_chan_set((c), (v))
#endif

/* log entry k is (channel c, value (t, i)) */
#define CS_ENTRY_IS(k, c, t, i_) (g_cs_chan[k] == (c) && g_cs_type[k] == (t) && g_cs_i[k] == (i_))

#endif
