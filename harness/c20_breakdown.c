/* C20 -- breakdown muxes: select_tr / select_idle of the real nosv/breakdown.c and nanos6/breakdown.c
 * (-DC20_NANOS6 selects the Nanos6 file; both define the same static names).
 *
 * Per physical CPU:   tr  = mux0(select = subsystem; inputs: 0 subsystem, 1 task type; default ST_UNKNOWN_SS)
 *                     tri = mux1(select = idle state; inputs: 0 tr, 1 idle state)
 * select_tr:   input 1 (task type)  iff  the select value is int64 ST_TASK_BODY and the task-type channel is non-null;
 *              else input 0 (subsystem) iff the subsystem channel is non-null; else no input (mux shows its default).
 * select_idle: input 0 (tr) iff the select value is int64 ST_PROGRESSING; else input 1 (the idle state itself).
 * Both never fail.  Loop-free: unbounded, all 64-bit values, single and stack channels. */
#include "prelude.h"
#include "value.h"
_Static_assert(sizeof(struct value) == 16, "struct value has no padding");
#undef value_is_equal
#define value_is_equal(a, b) ((a)->type == (b)->type && (a)->i == (b)->i)
#include "mux.c"               /* real: mux_get_input (outside breakdown.c, verified as written) */
#ifdef C20_NANOS6
#include "nanos6/breakdown.c"  /* the real /repo/src/emu/nanos6/breakdown.c */
#else
#include "nosv/breakdown.c"    /* the real /repo/src/emu/nosv/breakdown.c */
#endif

/* spec readers: the value a reader of the channel sees (struct copy, HOWTO pitfall 9) */
static inline int64_t spec_cur_t(struct chan *c)
{
	if (c->type == CHAN_SINGLE) { struct value v = c->data.value; return v.type; }
	if (c->data.stack.n > 0) { struct value v = c->data.stack.values[c->data.stack.n - 1]; return v.type; }
	return VALUE_NULL;
}
static inline int64_t spec_cur_i(struct chan *c)
{
	if (c->type == CHAN_SINGLE) { struct value v = c->data.value; return v.i; }
	if (c->data.stack.n > 0) { struct value v = c->data.stack.values[c->data.stack.n - 1]; return v.i; }
	return 0;
}
#define CHAN_WF(c) ((c)->type == CHAN_SINGLE || ((c)->type == CHAN_STACK && (c)->data.stack.n >= 0 && (c)->data.stack.n <= MAX_CHAN_STACK))
#define RV __CPROVER_return_value

/* a two-input mux whose inputs have channels (what connect_cpu builds) */
#define MUX2(m) (__CPROVER_is_fresh(m, sizeof(struct mux)) && (m)->ninputs == 2 && \
	__CPROVER_is_fresh((m)->inputs, 2 * sizeof(struct mux_input)))
#define MUX2_CHANS(m) (__CPROVER_is_fresh((m)->inputs[0].chan, sizeof(struct chan)) && CHAN_WF((m)->inputs[0].chan) && \
	__CPROVER_is_fresh((m)->inputs[1].chan, sizeof(struct chan)) && CHAN_WF((m)->inputs[1].chan))

int64_t g_ss_t, g_ss_i, g_tt_t;     /* pre-state: what the subsystem / task-type channels show */
int64_t w_vt, w_vi;
WITNESS(select_tr);
WITNESS(select_idle);

#define IN_BODY (value.type == VALUE_INT64 && value.i == ST_TASK_BODY && g_tt_t != VALUE_NULL)

int c_select_tr(struct mux *mux, struct value value, struct mux_input **input)
__CPROVER_requires(MUX2(mux) && MUX2_CHANS(mux) && __CPROVER_is_fresh(input, sizeof(*input)))
__CPROVER_requires(g_ss_t == spec_cur_t(mux->inputs[0].chan) && g_ss_i == spec_cur_i(mux->inputs[0].chan) && g_tt_t == spec_cur_t(mux->inputs[1].chan))
__CPROVER_requires(WBIND(select_tr, w_vt == value.type && w_vi == value.i) && DIAG_PRE)
__CPROVER_assigns(*input, DIAG_FRAME)
__CPROVER_ensures(RV == 0 && g_err == __CPROVER_old(g_err))
/* task type iff in a task body with a known type; else the subsystem iff it is non-null; else nothing (default shown) */
__CPROVER_ensures(*input == (IN_BODY ? &mux->inputs[1] : (g_ss_t != VALUE_NULL) ? &mux->inputs[0] : (struct mux_input *) NULL))
;

void h_select_tr(void)
{
	struct mux *mux; struct value value; struct mux_input **input;
	WITNESS_ON(select_tr);
	int r = select_tr(mux, value, input);
	(void) r;
	/* as wired by connect_cpu the select channel IS input 0: value == what the subsystem channel shows */
	int wired = (w_vt == g_ss_t && w_vi == g_ss_i);
	if (wired && w_vt == VALUE_INT64 && w_vi == ST_TASK_BODY && g_tt_t != VALUE_NULL) REACH("task body with a task type: task type selected");
	if (wired && w_vt == VALUE_INT64 && w_vi == ST_TASK_BODY && g_tt_t == VALUE_NULL) REACH("task body without a task type: subsystem selected");
	if (wired && w_vt == VALUE_INT64 && w_vi != ST_TASK_BODY) REACH("other subsystem: subsystem selected");
	if (wired && w_vt == VALUE_NULL) REACH("null subsystem: nothing selected, default shown");
}

int c_select_idle(struct mux *mux, struct value value, struct mux_input **input)
__CPROVER_requires(MUX2(mux) && __CPROVER_is_fresh(input, sizeof(*input)))
__CPROVER_requires(WBIND(select_idle, w_vt == value.type && w_vi == value.i) && DIAG_PRE)
__CPROVER_assigns(*input, DIAG_FRAME)
__CPROVER_ensures(RV == 0 && g_err == __CPROVER_old(g_err))
/* tr (task type / subsystem) iff the CPU is progressing; otherwise the idle state itself */
__CPROVER_ensures(*input == ((value.type == VALUE_INT64 && value.i == ST_PROGRESSING) ? &mux->inputs[0] : &mux->inputs[1]))
;

void h_select_idle(void)
{
	struct mux *mux; struct value value; struct mux_input **input;
	WITNESS_ON(select_idle);
	int r = select_idle(mux, value, input);
	(void) r;
	if (w_vt == VALUE_INT64 && w_vi == ST_PROGRESSING) REACH("progressing: tr selected");
	if (w_vt == VALUE_INT64 && w_vi != ST_PROGRESSING) REACH("not progressing: idle state selected");
	if (w_vt == VALUE_NULL) REACH("null idle state: idle input selected");
}
