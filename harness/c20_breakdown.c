/* C20 -- breakdown muxes: select_tr / select_idle of the real nosv/breakdown.c and nanos6/breakdown.c
 * (-DC20_NANOS6 selects the Nanos6 file; both define the same static names).
 *
 * Per physical CPU:   tr  = mux0(select = subsystem; inputs: 0 subsystem, 1 task type; default ST_UNKNOWN_SS)
 *                     tri = mux1(select = idle state; inputs: 0 tr, 1 idle state)
 * select_tr:   input 1 (task type)  iff  the select value is int64 ST_TASK_BODY and the task-type channel is non-null;
 *              else input 0 (subsystem) iff the subsystem channel is non-null; else no input (mux shows its default).
 * select_idle: input 0 (tr) iff the select value is int64 ST_PROGRESSING; else input 1 (the idle state itself).
 * Both never fail.  Loop-free: unbounded, all 64-bit values, single and stack channels. */
#include "prelude.h"
#include "value.h"
_Static_assert(sizeof(struct value) == 16, "struct value has no padding");
#undef value_is_equal
#define value_is_equal(a, b) ((a)->type == (b)->type && (a)->i == (b)->i)
#include "bay.h"
/* ---- bay (outside the unit): lookups and callback registration may fail; registrations are logged ---- */
#define CBLOG 8
unsigned g_cb_n; struct chan *g_cb_chan[CBLOG]; void *g_cb_func[CBLOG]; void *g_cb_arg[CBLOG]; int g_cb_en[CBLOG]; int g_cb_type[CBLOG];
unsigned g_lowfail;          /* a lower layer refused (bay_find, bay_add_cb, calloc) */
struct chan *bay_find(struct bay *bay, const char *name)
{
	(void) bay; (void) name;
	if (nondet_bool()) { g_lowfail++; return NULL; }
	struct chan *found = malloc(1);       /* any non-null pointer: mux_init only tests it */
	if (found == NULL) g_lowfail++;
	return found;
}
struct bay_cb *bay_add_cb(struct bay *bay, enum bay_cb_type type, struct chan *chan, bay_cb_func_t func, void *arg, int enabled)
{
	(void) bay;
	if (g_cb_n < CBLOG) { g_cb_chan[g_cb_n] = chan; g_cb_func[g_cb_n] = (void *) func; g_cb_arg[g_cb_n] = arg; g_cb_en[g_cb_n] = enabled; g_cb_type[g_cb_n] = (int) type; }
	g_cb_n++;
	if (nondet_bool()) { g_lowfail++; return NULL; }
	struct bay_cb *cb = malloc(sizeof(struct bay_cb));
	if (cb == NULL) { g_lowfail++; return NULL; }
	return cb;
}
void *calloc(size_t n, size_t sz)
{
	if (nondet_bool()) { g_lowfail++; return NULL; }
	char *q = malloc(n * sz);
	if (q == NULL) { g_lowfail++; return NULL; }
	if (n * sz > 0) memset(q, 0, n * sz);
	return q;
}
#include "chan.c"              /* real: chan_get_type, chan_prop_set (used by mux_init) */
#include "mux.c"               /* real: mux_get_input, mux_init, mux_set_input, mux_set_default (outside breakdown.c, verified as written) */
#ifdef C20_NANOS6
#include "nanos6/breakdown.c"  /* the real /repo/src/emu/nanos6/breakdown.c */
#else
#include "nosv/breakdown.c"    /* the real /repo/src/emu/nosv/breakdown.c */
#endif

/* spec readers: the value a reader of the channel sees (struct copy, HOWTO pitfall 9) */
static inline int64_t spec_cur_t(struct chan *c)
{
	if (c->type == CHAN_SINGLE) { struct value v = c->data.value; return v.type; }
	if (c->data.stack.n > 0) { struct value v = c->data.stack.values[c->data.stack.n - 1]; return v.type; }
	return VALUE_NULL;
}
static inline int64_t spec_cur_i(struct chan *c)
{
	if (c->type == CHAN_SINGLE) { struct value v = c->data.value; return v.i; }
	if (c->data.stack.n > 0) { struct value v = c->data.stack.values[c->data.stack.n - 1]; return v.i; }
	return 0;
}
#define CHAN_WF(c) ((c)->type == CHAN_SINGLE || ((c)->type == CHAN_STACK && (c)->data.stack.n >= 0 && (c)->data.stack.n <= MAX_CHAN_STACK))
#define RV __CPROVER_return_value

/* a two-input mux whose inputs have channels (what connect_cpu builds) */
#define MUX2(m) (__CPROVER_is_fresh(m, sizeof(struct mux)) && (m)->ninputs == 2 && \
	__CPROVER_is_fresh((m)->inputs, 2 * sizeof(struct mux_input)))
#define MUX2_CHANS(m) (__CPROVER_is_fresh((m)->inputs[0].chan, sizeof(struct chan)) && CHAN_WF((m)->inputs[0].chan) && \
	__CPROVER_is_fresh((m)->inputs[1].chan, sizeof(struct chan)) && CHAN_WF((m)->inputs[1].chan))

int64_t g_ss_t, g_ss_i, g_tt_t;     /* pre-state: what the subsystem / task-type channels show */
int64_t w_vt, w_vi;
int64_t w_ss_t, w_ss_i, w_tt_t;   /* replay: what the subsystem / task-type channels show */
WITNESS(select_tr);
WITNESS(select_idle);

#define IN_BODY (value.type == VALUE_INT64 && value.i == ST_TASK_BODY && g_tt_t != VALUE_NULL)

int c_select_tr(struct mux *mux, struct value value, struct mux_input **input)
__CPROVER_requires(MUX2(mux) && MUX2_CHANS(mux) && __CPROVER_is_fresh(input, sizeof(*input)))
__CPROVER_requires(g_ss_t == spec_cur_t(mux->inputs[0].chan) && g_ss_i == spec_cur_i(mux->inputs[0].chan) && g_tt_t == spec_cur_t(mux->inputs[1].chan))
__CPROVER_requires(WBIND(select_tr, w_vt == value.type && w_vi == value.i && w_ss_t == g_ss_t && w_ss_i == g_ss_i && w_tt_t == g_tt_t) && DIAG_PRE)
__CPROVER_assigns(*input, DIAG_FRAME)
__CPROVER_ensures(RV == 0 && g_err == __CPROVER_old(g_err))
/* task type iff in a task body with a known type; else the subsystem iff it is non-null; else nothing (default shown) */
__CPROVER_ensures(*input == (IN_BODY ? &mux->inputs[1] : (g_ss_t != VALUE_NULL) ? &mux->inputs[0] : (struct mux_input *) NULL))
;

void h_select_tr(void)
{
	struct mux *mux; struct value value; struct mux_input **input;
	WITNESS_ON(select_tr);
	int r = select_tr(mux, value, input);
	(void) r;
	/* as wired by connect_cpu the select channel IS input 0: value == what the subsystem channel shows */
	int wired = (w_vt == g_ss_t && w_vi == g_ss_i);
	if (wired && w_vt == VALUE_INT64 && w_vi == ST_TASK_BODY && g_tt_t != VALUE_NULL) REACH("task body with a task type: task type selected");
	if (wired && w_vt == VALUE_INT64 && w_vi == ST_TASK_BODY && g_tt_t == VALUE_NULL) REACH("task body without a task type: subsystem selected");
	if (wired && w_vt == VALUE_INT64 && w_vi != ST_TASK_BODY) REACH("other subsystem: subsystem selected");
	if (wired && w_vt == VALUE_NULL) REACH("null subsystem: nothing selected, default shown");
}

int c_select_idle(struct mux *mux, struct value value, struct mux_input **input)
__CPROVER_requires(MUX2(mux) && __CPROVER_is_fresh(input, sizeof(*input)))
__CPROVER_requires(WBIND(select_idle, w_vt == value.type && w_vi == value.i) && DIAG_PRE)
__CPROVER_assigns(*input, DIAG_FRAME)
__CPROVER_ensures(RV == 0 && g_err == __CPROVER_old(g_err))
/* tr (task type / subsystem) iff the CPU is progressing; otherwise the idle state itself */
__CPROVER_ensures(*input == ((value.type == VALUE_INT64 && value.i == ST_PROGRESSING) ? &mux->inputs[0] : &mux->inputs[1]))
;

void h_select_idle(void)
{
	struct mux *mux; struct value value; struct mux_input **input;
	WITNESS_ON(select_idle);
	int r = select_idle(mux, value, input);
	(void) r;
	if (w_vt == VALUE_INT64 && w_vi == ST_PROGRESSING) REACH("progressing: tr selected");
	if (w_vt == VALUE_INT64 && w_vi != ST_PROGRESSING) REACH("not progressing: idle state selected");
	if (w_vt == VALUE_NULL) REACH("null idle state: idle input selected");
}

/* ================================================================= connect_cpu: the wiring itself */
/* Succeeds iff tr and tri are single channels and no lower layer (bay_find, bay_add_cb, calloc) refused; then
 *   mux0: select = CPU subsystem track, output = tr, selector = select_tr, inputs {0: subsystem, 1: task type},
 *         default value int64 ST_UNKNOWN_SS
 *   mux1: select = CPU idle track, output = tri, selector = select_idle, inputs {0: tr, 1: idle}
 * and the six bay callbacks are registered (selects enabled, inputs disabled). */
#ifdef C20_NANOS6
#define MCPU struct nanos6_cpu
#else
#define MCPU struct nosv_cpu
#endif
#define BC (&mcpu->breakdown)
#define SS (&mcpu->m.track[CH_SUBSYSTEM].ch)
#define TT (&mcpu->m.track[CH_TYPE].ch)
#define IDLE (&mcpu->m.track[CH_IDLE].ch)
static inline int64_t def_t(struct mux *m) { struct value v = m->def; return v.type; }
static inline int64_t def_i(struct mux *m) { struct value v = m->def; return v.i; }
int w_tr_type, w_tri_type;
#define OLD_TR_SINGLE (__CPROVER_old(mcpu->breakdown.tr.type) == CHAN_SINGLE)
#define OLD_TRI_SINGLE (__CPROVER_old(mcpu->breakdown.tri.type) == CHAN_SINGLE)
WITNESS(connect_cpu);
#define CBROW(k, ch, fn, ar, en) (g_cb_chan[(k)] == (ch) && g_cb_func[(k)] == (void *) (fn) && g_cb_arg[(k)] == (void *) (ar) && g_cb_en[(k)] == (en) && g_cb_type[(k)] == BAY_CB_DIRTY)
int c_connect_cpu(struct bay *bay, MCPU *mcpu)
__CPROVER_requires(__CPROVER_is_fresh(mcpu, sizeof(MCPU)) && __CPROVER_is_fresh(mcpu->m.track, CH_MAX * sizeof(struct track)))
__CPROVER_requires(g_cb_n == 0 && g_lowfail == 0 && DIAG_PRE)
__CPROVER_requires(WBIND(connect_cpu, w_tr_type == (int) BC->tr.type && w_tri_type == (int) BC->tri.type))
__CPROVER_assigns(BC->mux0, BC->mux1, BC->tr.prop[CHAN_DIRTY_WRITE], BC->tr.prop[CHAN_ALLOW_DUP], BC->tri.prop[CHAN_DIRTY_WRITE], BC->tri.prop[CHAN_ALLOW_DUP])
__CPROVER_assigns(g_cb_n, __CPROVER_object_whole(g_cb_chan), __CPROVER_object_whole(g_cb_func), __CPROVER_object_whole(g_cb_arg), __CPROVER_object_whole(g_cb_en), __CPROVER_object_whole(g_cb_type), g_lowfail, DIAG_FRAME)
__CPROVER_ensures(RV == 0 || RV == -1)
__CPROVER_ensures((RV == 0) == (OLD_TR_SINGLE && OLD_TRI_SINGLE && g_lowfail == 0))
__CPROVER_ensures(RV == 0 || g_err > __CPROVER_old(g_err))
/* mux0 */
__CPROVER_ensures(RV != 0 || (BC->mux0.select == SS && BC->mux0.output == &BC->tr && BC->mux0.select_func == select_tr && BC->mux0.ninputs == 2 && BC->mux0.bay == bay &&
	BC->mux0.inputs[0].chan == SS && BC->mux0.inputs[1].chan == TT && BC->mux0.inputs[0].index == 0 && BC->mux0.inputs[1].index == 1 &&
	BC->mux0.inputs[0].output == &BC->tr && BC->mux0.inputs[1].output == &BC->tr &&
	def_t(&BC->mux0) == VALUE_INT64 && def_i(&BC->mux0) == ST_UNKNOWN_SS))
/* mux1 */
__CPROVER_ensures(RV != 0 || (BC->mux1.select == IDLE && BC->mux1.output == &BC->tri && BC->mux1.select_func == select_idle && BC->mux1.ninputs == 2 && BC->mux1.bay == bay &&
	BC->mux1.inputs[0].chan == &BC->tr && BC->mux1.inputs[1].chan == IDLE && BC->mux1.inputs[0].index == 0 && BC->mux1.inputs[1].index == 1 &&
	BC->mux1.inputs[0].output == &BC->tri && BC->mux1.inputs[1].output == &BC->tri && def_t(&BC->mux1) == VALUE_NULL))
/* outputs accept repeated and duplicate writes (needed by the muxes) */
__CPROVER_ensures(RV != 0 || (BC->tr.prop[CHAN_DIRTY_WRITE] == 1 && BC->tr.prop[CHAN_ALLOW_DUP] == 1 && BC->tri.prop[CHAN_DIRTY_WRITE] == 1 && BC->tri.prop[CHAN_ALLOW_DUP] == 1))
/* callbacks: selects enabled, inputs disabled until selected */
__CPROVER_ensures(RV != 0 || (g_cb_n == 6 &&
	CBROW(0, SS, cb_select, &BC->mux0, 1) && CBROW(1, SS, cb_input, &BC->mux0.inputs[0], 0) && CBROW(2, TT, cb_input, &BC->mux0.inputs[1], 0) &&
	CBROW(3, IDLE, cb_select, &BC->mux1, 1) && CBROW(4, &BC->tr, cb_input, &BC->mux1.inputs[0], 0) && CBROW(5, IDLE, cb_input, &BC->mux1.inputs[1], 0)))
;
void h_connect_cpu(void)
{
	struct bay *bay; MCPU *mcpu;
	WITNESS_ON(connect_cpu);
	int r = connect_cpu(bay, mcpu);
	if (r == 0) REACH("breakdown muxes of a CPU connected");
	if (r != 0 && g_lowfail == 0) REACH("refused: tr or tri is not a single channel");
	if (r != 0 && g_lowfail != 0 && w_tr_type == CHAN_SINGLE && w_tri_type == CHAN_SINGLE) REACH("refused by a lower layer");
}
