/* C20 -- sort_replace of the real src/emu/sort.c for a SYMBOLIC row count 1 <= n <= SRU_N (one group covers
 * every n up to the bound), full 64-bit values, CBMC loop contracts on the four real loops.
 *
 * Contract ("shift specification", arbitrary observed cell g_k, no counting):
 *   arr sorted (hypothesis), P = first position of old, Q = landing position of new (pre-state facts);
 *   old < new:  arr'[k] = arr[k] for k < P or k > Q,  arr[k+1] for P <= k < Q,  new for k = Q
 *   new < old:  arr'[k] = arr[k] for k < Q or k > P,  arr[k-1] for Q < k <= P,  new for k = Q
 *   and new is correctly located: arr'[Q-1] <= new <= arr'[Q+1] (where those cells exist),
 *   and (machine-checked as well, arbitrary adjacent pair g_i) arr' is sorted.
 * LEMMA (argued, not machine-checked): for a sorted arr, the shift specification for every k says that arr' is
 * arr with the cell P (content old) removed, the cells between P and Q moved by one position towards P in the
 * same order, and new inserted at Q; hence multiset(arr') = multiset(arr) - {old} + {new}; a sequence obtained
 * from a sorted one by deleting one element is sorted, and inserting new between neighbours
 * arr'[Q-1] <= new <= arr'[Q+1] keeps it sorted.
 *
 * Why the hypothesis is a constant-bound quantifier (expanded by the SAT back end) and the group therefore
 * BOUNDED by SRU_N: both search loops stop at a data-dependent cell; under a loop contract the loop index is
 * havocked, and "arr is sorted" must be available AT THE HAVOCKED INDEX (an instance the requires clause cannot
 * name: every ghost index of the contract is fixed before the havoc).  Likewise the shifting loops read
 * arr[i+1] / arr[i-1] ahead of the hole, inside the region the loop contract havocs, so "cells not yet reached
 * are unchanged" is needed at the havocked index too.  Both are universally quantified facts used as
 * ASSUMPTIONS; the arbitrary-observer idiom only replaces quantifiers in PROVED position. */
#include "prelude.h"
#include "sort.c"          /* the real /repo/src/emu/sort.c */

#ifndef SRU_N
#define SRU_N 16
#endif
#ifndef SRU_HYP
#define SRU_HYP 1          /* 1: pairwise sortedness  2: adjacent sortedness */
#endif

long g_p, g_q;             /* P: first position of old;  Q: landing position of new */
long g_k;                  /* positional observer */
long g_i;                  /* sortedness observer: adjacent pair (g_i, g_i + 1) */
#ifdef SRU_FIXED
int64_t g_orig[SRU_N];     /* ghost copy of the input array (never written; arbitrary at entry: DFCC havocs statics) */
int64_t *g_base;           /* the typed object int64_t[SRU_N] the harness allocates; arr = g_base + g_off */
long g_off;
#else
int64_t *g_orig;           /* ghost copy of the input array (never written) */
#endif

#define FA(j, body) __CPROVER_forall { long j; (0 <= j && j < SRU_N) ==> (body) }
#if SRU_HYP == 1
#define SORTED_ORIG FA(a, FA(b, (a < b && b < n) ==> g_orig[a] <= g_orig[b]))
#elif SRU_HYP == 2
#define SORTED_ORIG FA(a, (a + 1 < n) ==> g_orig[a] <= g_orig[a + 1])
#else
/* threshold form: what "sorted, P = first position of old, Q = landing position of new" says about every cell
 * relative to old and to new (weaker than sortedness, hence a stronger theorem), plus sortedness at the three
 * adjacent pairs around the sortedness observer */
#define S1O(k) (!(0 <= (k) && (k) + 1 < n) || g_orig[(k)] <= g_orig[(k) + 1])
#define SORTED_ORIG (FA(a, (a < n) ==> (((a < g_p) == (g_orig[a] < old)) && ((a < g_q + (old < new)) == (g_orig[a] <= new)))) && \
	S1O(g_i - 1) && S1O(g_i) && S1O(g_i + 1))
#endif

#define Q_UP   (g_p <= g_q && g_q < n && g_orig[g_q] <= new && (g_q == n - 1 || g_orig[g_q + 1] > new))
#define Q_DOWN (0 <= g_q && g_q <= g_p && g_orig[g_q] > new && (g_q == 0 || g_orig[g_q - 1] <= new))
#ifndef SRU_CASE
#define SRU_SPLIT 1
#elif SRU_CASE == 1
#define SRU_SPLIT (old <= new)
#else
#define SRU_SPLIT (new <= old)
#endif

long w_n, w_p, w_q, w_k; int64_t w_old, w_new;
WITNESS(sort_replace);

void c_sort_replace(int64_t *arr, int64_t n, int64_t old, int64_t new)
__CPROVER_requires(1 <= n && n <= SRU_N)
#ifdef SRU_FIXED
/* arr is a window of n cells at the start or at the end of the object (so an access outside [0, n) leaves the object) */
__CPROVER_requires(__CPROVER_rw_ok(g_base, SRU_N * sizeof(int64_t)) && (g_off == 0 || g_off == SRU_N - n) && __CPROVER_pointer_equals(arr, g_base + g_off))
#else
__CPROVER_requires(__CPROVER_is_fresh(arr, n * sizeof(int64_t)))
__CPROVER_requires(__CPROVER_is_fresh(g_orig, n * sizeof(int64_t)))
#endif
__CPROVER_requires(FA(j, (j < n) ==> arr[j] == g_orig[j]))
__CPROVER_requires(SORTED_ORIG)
__CPROVER_requires(0 <= g_p && g_p < n && g_orig[g_p] == old && (g_p == 0 || g_orig[g_p - 1] < old))
__CPROVER_requires(old == new || (old < new && Q_UP) || (new < old && Q_DOWN))
__CPROVER_requires(SRU_SPLIT)
__CPROVER_requires(0 <= g_k && g_k < n && -1 <= g_i && g_i <= n)
__CPROVER_requires(WBIND(sort_replace, w_n == n && w_p == g_p && w_q == g_q && w_k == g_k && w_old == old && w_new == new))
__CPROVER_assigns(__CPROVER_object_whole(arr), g_died)
/* returns only if old != new */
__CPROVER_ensures(old != new)
/* shift specification and frame (arbitrary cell g_k) */
__CPROVER_ensures(!(old < new) || arr[g_k] == ((g_k < g_p || g_k > g_q) ? g_orig[g_k] : (g_k < g_q) ? g_orig[g_k + 1] : new))
__CPROVER_ensures(!(new < old) || arr[g_k] == ((g_k < g_q || g_k > g_p) ? g_orig[g_k] : (g_k > g_q) ? g_orig[g_k - 1] : new))
/* new is correctly located */
__CPROVER_ensures(arr[g_q] == new && (g_q == 0 || arr[g_q - 1] <= new) && (g_q == n - 1 || new <= arr[g_q + 1]))
#ifndef SRU_NOSORTOBS
/* sorted again (arbitrary adjacent pair) */
__CPROVER_ensures(!(0 <= g_i && g_i < n - 1) || arr[g_i] <= arr[g_i + 1])
#endif
;

void h_sort_replace(void)
{
	int64_t *arr; int64_t n, old, new;
	WITNESS_ON(sort_replace);
#ifdef SRU_FIXED
	g_base = malloc(sizeof(int64_t) * SRU_N);
	__CPROVER_assume(g_base != NULL);
#endif
	sort_replace(arr, n, old, new);
	REACH("sort_replace returns");
	if (w_n == SRU_N) REACH("largest row count of the group");
	if (w_n == 1) REACH("a single row");
#if !defined(SRU_CASE) || SRU_CASE == 1
	if (w_old < w_new && w_q >= w_p + 2) REACH("old < new, at least two cells shifted down");
	if (w_old < w_new && w_p == 0 && w_q == w_n - 1 && w_n >= 3) REACH("old first, new last");
	if (w_old < w_new && w_k > w_p && w_k < w_q) REACH("observer inside the shifted range (up)");
	if (w_old < w_new && w_p > w_n / 2) REACH("search starts at the middle");
#endif
#if !defined(SRU_CASE) || SRU_CASE == 2
	if (w_new < w_old && w_q + 2 <= w_p) REACH("new < old, at least two cells shifted up");
	if (w_new < w_old && w_q == 0 && w_p == w_n - 1 && w_n >= 3) REACH("old last, new first");
	if (w_new < w_old && w_k > w_q && w_k < w_p) REACH("observer inside the shifted range (down)");
#endif
	if (w_q == w_p) REACH("replaced in place");
}
