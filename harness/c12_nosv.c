/* C12 -- nOS-V handlers (real nosv/event.c): payload-size guards of the task
 * events (VTx/e/p/r, VTc/VTC need 8 bytes), shape of VYc (jumbo, type id + nil
 * terminated label), unknown values / categories / model. */
#include "prelude.h"
#include "harness/c12_handlers.h"
#include "nosv/event.c"      /* real /repo/src/emu/nosv/event.c */
#define TM_CH 'V'
#define TM_THREAD_T struct nosv_thread
#define TM_PROC_T struct nosv_proc
#define TM_STATE_MIN 8
#define TM_CREATE_OK(ps) ((ps) >= 8)
#define TM_CREATE_HAS_VALUE 1
#define TM_KNOWN_C(c) ((c) == 'S' || (c) == 'U' || (c) == 'M' || (c) == 'H' || (c) == 'A' || (c) == 'P' || (c) == 'T' || (c) == 'Y')
#define TM_OUT_OF_CPU_CHECK 1
#include "harness/c12_taskmodel.h"
void h_model_event_fn(void)
{
	struct emu *emu;
	WITNESS_ON(model_event_fn);
	int r = model_nosv_event(emu);
	if (r == 0) REACH("nOS-V event dispatched");
	if (r != 0 && w_c != 'V') REACH("event of another model refused");
}
