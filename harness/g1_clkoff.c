/* G1 (gap closure, property C03) -- src/emu/clkoff.c: the clock-offset table
 * (cfind, cadd, cparse, cindex, clkoff_load, clkoff_count, clkoff_get).
 *
 * C03 corrects every stream clock with "the clock offset of the stream's host": the table
 * file has a header line and then one line per host "<rank> <hostname> <median> <mean>
 * <stdev>"; system.c uses the MEDIAN of the line whose hostname equals the loom's.
 * Stated here: after a successful load every parsed host appears exactly once, in file
 * order, with exactly the parsed numbers; a second line for a host that already has one is
 * refused; a malformed line is refused with a diagnostic; clkoff_get(i), i < count, is
 * entry i.
 *
 * Trusted (most general, listed in the plan):
 *  - fgets: the file is a ghost sequence of lines (header + at most G1_NLINES data lines,
 *    that is the bound; per-line attributes in separate scalar arrays -- a nondet struct array
 *    was read back inconsistently by CBMC); call k returns line k, or NULL (end of file or read
 *    error) at ANY line; an "empty" line starts with '\n';
 *  - sscanf (variadic: rebound by macro to a fixed-arity stub for this one format): returns
 *    EOF or 0..5 for the current line, stores the first `ret` fields, sets errno arbitrarily;
 *  - errno: a ghost int;  calloc: may fail;  memcpy: CBMC model;
 *  - uthash HASH_ADD_STR / HASH_FIND_STR (not verified): insertion-ordered association
 *    chain through hh.next keyed by strcmp on hh.key (bounded groups), or an argument log
 *    with arbitrary result (unbounded cfind contract, -DG1_HLOG). */
#include "prelude.h"
#include "uthash.h"

#ifndef G1_NLINES
#define G1_NLINES 3
#endif
#define G1_NAMELEN 2                  /* host names of <= 2 characters */

int g1_errno;
#undef errno
#define errno g1_errno

/* ---- ghost file ---- */
#define G1_NF (G1_NLINES + 2)           /* [0] = header; [G1_NLINES+1] = forced end */
int g_f_eof[G1_NF];     /* fgets returns NULL when asked for this line */
int g_f_empty[G1_NF];   /* the line is "\n" */
int g_f_ret[G1_NF];     /* what sscanf makes of it: EOF or 0..5 */
int g_f_err[G1_NF];     /* errno left by sscanf */
int64_t g_f_index[G1_NF]; char g_f_c0[G1_NF], g_f_c1[G1_NF]; double g_f_median[G1_NF], g_f_mean[G1_NF], g_f_stdev[G1_NF];
unsigned g_fg_n;                       /* fgets calls so far */
int g_cur;                             /* line handed out by the last fgets */
unsigned g_ss_n;

char *g1_fgets(char *buf, int n, FILE *f)
{
	(void) f;
	unsigned k = g_fg_n++;
	__CPROVER_assert(n >= 2, "fgets buffer");
	if (k > G1_NLINES || g_f_eof[k])
		return NULL;
	buf[0] = g_f_empty[k] ? '\n' : 'x';
	buf[1] = '\0';
	g_cur = (int) k;
	return buf;
}
#define fgets(b, n, f) g1_fgets((b), (n), (f))

int g1_sscanf5(const char *buf, const char *fmt, int64_t *index, char *name, double *median, double *mean, double *stdev)
{
	(void) buf; (void) fmt;
	g_ss_n++;
	int k = g_cur;
	g1_errno = g_f_err[k];
	int ret = g_f_ret[k];
	if (ret == EOF)
		return EOF;
	if (ret >= 1) *index = g_f_index[k];
	if (ret >= 2) { name[0] = g_f_c0[k]; name[1] = g_f_c1[k]; name[2] = '\0'; }
	if (ret >= 3) *median = g_f_median[k];
	if (ret >= 4) *mean = g_f_mean[k];
	if (ret >= 5) *stdev = g_f_stdev[k];
	return ret;
}
#undef sscanf
#define sscanf(buf, fmt, a, b, c, d, e) g1_sscanf5((buf), (fmt), (a), (b), (c), (d), (e))

/* ---- uthash ---- */
unsigned g_hf_n; void *g_hf_head; const char *g_hf_key; void *g_hf_out;
#undef HASH_FIND_STR
#undef HASH_ADD_STR
#ifdef G1_HLOG
#define HASH_FIND_STR(head, findstr, out) { g_hf_n++; g_hf_head = (void *) (head); g_hf_key = (findstr); (out) = g_hf_out; }
#define HASH_ADD_STR(head, strfield, add) { if ((head) == NULL) (head) = (add); }
#else
#define HASH_ADD_STR(head, strfield, add) { \
	(add)->hh.key = (void *) (add)->strfield; (add)->hh.next = NULL; \
	if ((head) == NULL) { (head) = (add); } \
	else { __typeof__(head) g1_t = (head); \
		while (g1_t->hh.next != NULL) g1_t = g1_t->hh.next; \
		g1_t->hh.next = (add); } }
#define HASH_FIND_STR(head, findstr, out) { (out) = NULL; \
	for (__typeof__(head) g1_f = (head); g1_f != NULL; g1_f = g1_f->hh.next) \
		if (strcmp((const char *) g1_f->hh.key, (findstr)) == 0) { (out) = g1_f; break; } }
#endif

/* ---- calloc: may fail; objects keep their type ---- */
#include "clkoff.h"
unsigned g_lowfail;
void *calloc(size_t n, size_t sz)
{
	if (nondet_bool()) { g_lowfail++; return NULL; }
	if (n == 1 && sz == sizeof(struct clkoff_entry)) {
		/* contents ARBITRARY rather than zero (over-approximation; cadd overwrites it) */
		struct clkoff_entry *e = malloc(sizeof(struct clkoff_entry));
		if (e == NULL) { g_lowfail++; return NULL; }
		return e;
	}
	if (sz == sizeof(struct clkoff_entry *) && n >= 1 && n <= G1_NLINES + 1) {
		struct clkoff_entry **a = malloc(n * sizeof(struct clkoff_entry *));
		if (a == NULL) { g_lowfail++; return NULL; }
		for (size_t j = 0; j < G1_NLINES + 1; j++) if (j < n) a[j] = NULL;
		return a;
	}
	__CPROVER_assert(0, "G1: unexpected calloc request");
	return NULL;
}

#include "clkoff.c"               /* the real /repo/src/emu/clkoff.c */

#define RV __CPROVER_return_value
#define OLD(e) __CPROVER_old(e)

static int same_name(const char *a, const char *b)
{
	for (int j = 0; j <= G1_NAMELEN; j++) {
		if (a[j] != b[j]) return 0;
		if (a[j] == '\0') return 1;
	}
	return 1;
}
/* line k's host name (two characters, the second may be NUL) */
#define LINE_SAME(k1, k2) (g_f_c0[k1] == g_f_c0[k2] && g_f_c1[k1] == g_f_c1[k2])
#define ENTRY_IS(e, k) ((e)->name[0] == g_f_c0[k] && (e)->name[1] == g_f_c1[k] && (g_f_c1[k] == '\0' || (e)->name[2] == '\0'))

/* arbitrary ghost file within the bound */
static void g1_any_file(void)
{
	for (int k = 0; k < G1_NF; k++) {
		g_f_eof[k] = nondet_bool(); g_f_empty[k] = nondet_bool();
		int ret = nondet_int(); __CPROVER_assume(ret >= -1 && ret <= 5); g_f_ret[k] = ret;
		g_f_err[k] = nondet_int();
		g_f_index[k] = nondet_long();
		char c0 = nondet_char(); __CPROVER_assume(c0 != '\0'); g_f_c0[k] = c0; g_f_c1[k] = nondet_char();
		/* the numbers are compared with ==: keep NaN out of the witnesses */
		double m, a, d; __CPROVER_assume(m == m && a == a && d == d);
		g_f_median[k] = m; g_f_mean[k] = a; g_f_stdev[k] = d;
	}
	g_f_eof[G1_NLINES + 1] = 1;
	g_fg_n = 0; g_ss_n = 0; g_cur = 0; g_lowfail = 0; g_err = 0;
}

/* SPECIFICATION of the table file, written from the format description: the header line is
 * skipped; data lines are taken in order until the file ends (or a blank remainder: sscanf
 * EOF without error); empty lines are skipped; each line must have the five fields and a
 * host name no earlier line has.  acc[] = indices of the accepted lines, in order. */
struct g1_spec { int legal; int n; int acc[G1_NLINES]; };
static struct g1_spec g1_spec_file(void)
{
	struct g1_spec s; s.legal = 1; s.n = 0;
	for (int j = 0; j < G1_NLINES; j++) s.acc[j] = 0;
	if (g_f_eof[0]) { s.legal = 0; return s; }
	int stop = 0;
	for (int k = 1; k <= G1_NLINES; k++) {
		if (stop) continue;
		if (g_f_eof[k]) { stop = 1; continue; }
		if (g_f_empty[k]) continue;
		if (g_f_ret[k] == EOF) { stop = 1; if (g_f_err[k] != 0) s.legal = 0; continue; }
		if (g_f_ret[k] != 5) { stop = 1; s.legal = 0; continue; }
		int dup = 0;
		for (int j = 0; j < G1_NLINES; j++)
			if (j < s.n && LINE_SAME(s.acc[j], k)) dup = 1;
		if (dup) { stop = 1; s.legal = 0; continue; }
		s.acc[s.n++] = k;
	}
	return s;
}

/* the table holds exactly the accepted lines, in order, with the parsed numbers */
static void g1_check_entries(struct clkoff *t, struct g1_spec s)
{
	VASSERT(t->nentries == s.n, "one entry per accepted line");
	struct clkoff_entry *e = t->entries;
	for (int j = 0; j < G1_NLINES; j++) {
		if (j >= s.n) continue;
		int k = s.acc[j];
		VASSERT(e != NULL, "entry j exists");
		VASSERT(ENTRY_IS(e, k), "entry j is the host of the j-th accepted line");
		VASSERT(e->median == g_f_median[k], "... with the parsed MEDIAN");
		VASSERT(e->mean == g_f_mean[k] && e->stdev == g_f_stdev[k] && e->index == g_f_index[k], "... and the other parsed numbers");
		e = e->hh.next;
	}
	VASSERT(e == NULL, "no further entries");
}

/* ------------------------------- cparse ------------------------------- */
#ifdef H_CPARSE
void h_cparse(void)
{
	struct clkoff *t = malloc(sizeof(struct clkoff));
	__CPROVER_assume(t != NULL);
	g1_any_file();
	struct g1_spec s = g1_spec_file();
	clkoff_init(t);
	FILE *f;
	int r = cparse(t, f);
	VASSERT((r == 0) == (s.legal && g_lowfail == 0), "the table is accepted exactly when header and every line are well formed and no host repeats (and memory suffices)");
	VASSERT(r == 0 || (r == -1 && g_err > 0), "a refusal is diagnosed");
	if (r == 0) {
		g1_check_entries(t, s);
		REACH("table parsed");
		if (s.n == 3) REACH("three hosts");
		if (s.n == 2 && g_f_empty[1]) REACH("empty line skipped");
		if (s.n == 0) REACH("header only");
		if (s.n == 1 && s.acc[0] == 1 && !g_f_eof[2] && !g_f_empty[2] && g_f_ret[2] == EOF) REACH("blank remainder ends the table");
	} else {
		if (g_f_eof[0]) REACH("missing header refused");
		if (g_lowfail == 0 && !g_f_eof[0] && !g_f_eof[1] && !g_f_empty[1] && g_f_ret[1] == 4) REACH("line with four fields refused");
		if (g_lowfail == 0 && s.n == 2 && !s.legal && g_f_ret[3] == 5 && LINE_SAME(3, 1)) REACH("repeated host refused");
		if (g_lowfail == 0 && !g_f_eof[0] && !g_f_eof[1] && !g_f_empty[1] && g_f_ret[1] == EOF && g_f_err[1] != 0) REACH("scan error refused");
		if (g_lowfail > 0 && s.legal) REACH("out of memory refused");
	}
}
#endif

/* ------------------------------- clkoff_load + clkoff_get/count ------------------------------- */
#ifdef H_CLKOFF_LOAD
void h_clkoff_load(void)
{
	struct clkoff *t = malloc(sizeof(struct clkoff));
	__CPROVER_assume(t != NULL);
	g1_any_file();
	struct g1_spec s = g1_spec_file();
	clkoff_init(t);
	FILE *f;
	int r = clkoff_load(t, f);
	VASSERT((r == 0) == (s.legal && s.n >= 1 && g_lowfail == 0), "loaded exactly when the file is well formed, has at least one host and memory suffices");
	VASSERT(r == 0 || (r == -1 && g_err > 0), "a refusal is diagnosed");
	if (r == 0) {
		g1_check_entries(t, s);
		VASSERT(clkoff_count(t) == s.n, "count = number of hosts");
		for (int j = 0; j < G1_NLINES; j++) {
			if (j >= s.n) continue;
			struct clkoff_entry *e = clkoff_get(t, j);
			int k = s.acc[j];
			VASSERT(e != NULL && ENTRY_IS(e, k) && e->median == g_f_median[k], "clkoff_get(j) is the j-th host of the file with its median");
			for (int i = 0; i < G1_NLINES; i++)
				if (i < s.n && i != j) VASSERT(clkoff_get(t, i) != e && !same_name(clkoff_get(t, i)->name, e->name), "every host appears exactly once");
		}
		REACH("table loaded");
		if (s.n == 3) REACH("three hosts loaded");
		if (s.n == 1) REACH("one host loaded");
	} else {
		if (s.legal && s.n == 0 && g_lowfail == 0) REACH("table without hosts refused");
		if (!s.legal) REACH("malformed table refused");
		if (s.legal && s.n == 2 && g_lowfail == 1) REACH("out of memory refused");
	}
}
#endif

/* ------------------------------- cadd ------------------------------- */
#ifdef H_CADD
void h_cadd(void)
{
	struct clkoff *t = malloc(sizeof(struct clkoff));
	struct clkoff_entry *e0 = malloc(sizeof(struct clkoff_entry)), *e1 = malloc(sizeof(struct clkoff_entry));
	__CPROVER_assume(t && e0 && e1);
	int n = nondet_int(); __CPROVER_assume(n >= 0 && n <= 2);
	e0->name[G1_NAMELEN] = '\0'; e1->name[G1_NAMELEN] = '\0';
	e0->hh.key = e0->name; e1->hh.key = e1->name;
	e0->hh.next = n > 1 ? e1 : NULL; e1->hh.next = NULL;
	__CPROVER_assume(n < 2 || !same_name(e0->name, e1->name));   /* table invariant: hosts are distinct */
	t->entries = n > 0 ? e0 : NULL; t->nentries = n; t->index = NULL;
	struct clkoff_entry e;
	e.name[G1_NAMELEN] = '\0';
	__CPROVER_assume(e.median == e.median && e.mean == e.mean && e.stdev == e.stdev);
	__CPROVER_assume(e0->median == e0->median && e1->median == e1->median);
	int dup = (n > 0 && same_name(e0->name, e.name)) || (n > 1 && same_name(e1->name, e.name));
	double m0 = e0->median, m1 = e1->median;
	g_lowfail = 0; g_err = 0;
	int r = cadd(t, e);
	VASSERT((r == 0) == (!dup && g_lowfail == 0), "a host is added exactly when the table does not have it yet (and memory suffices)");
	VASSERT(r == 0 || (r == -1 && g_err > 0), "a refusal is diagnosed");
	VASSERT(t->entries == (n > 0 ? e0 : t->entries) && (n < 2 || e0->hh.next == e1) && (n < 1 || e0->median == m0) && (n < 2 || e1->median == m1), "existing entries stay in place, unchanged");
	if (r == 0) {
		struct clkoff_entry *last = n == 0 ? t->entries : n == 1 ? e0->hh.next : e1->hh.next;
		VASSERT(t->nentries == n + 1, "one more entry");
		VASSERT(last != NULL && last != e0 && last != e1 && last->hh.next == NULL, "a new entry is appended at the end");
		VASSERT(same_name(last->name, e.name) && last->median == e.median && last->mean == e.mean && last->stdev == e.stdev && last->index == e.index, "it is a copy of the parsed line");
		REACH("host added");
		if (n == 2) REACH("third host added");
	} else {
		VASSERT(t->nentries == n && (n != 0 || t->entries == NULL) && (n != 1 || e0->hh.next == NULL) && (n != 2 || e1->hh.next == NULL), "refused: table unchanged");
		if (dup && n == 2 && same_name(e1->name, e.name)) REACH("duplicate of the second host refused");
		if (!dup) REACH("out of memory");
	}
}
#endif

/* ------------------------------- cindex ------------------------------- */
#ifdef H_CINDEX
void h_cindex(void)
{
	struct clkoff *t = malloc(sizeof(struct clkoff));
	struct clkoff_entry *e0 = malloc(sizeof(struct clkoff_entry)), *e1 = malloc(sizeof(struct clkoff_entry)), *e2 = malloc(sizeof(struct clkoff_entry));
	__CPROVER_assume(t && e0 && e1 && e2);
	struct clkoff_entry *E[3] = { e0, e1, e2 };
	int n = nondet_int(); __CPROVER_assume(n >= 0 && n <= 3);
	for (int j = 0; j < 3; j++) E[j]->hh.next = (j + 1 < n) ? E[j + 1] : NULL;
	t->entries = n > 0 ? e0 : NULL; t->nentries = n; t->index = NULL;
	g_lowfail = 0; g_err = 0;
	int r = cindex(t);
	VASSERT((r == 0) == (n >= 1 && g_lowfail == 0), "indexed exactly when the table has at least one entry (and memory suffices)");
	VASSERT(r == 0 || (r == -1 && g_err > 0), "a refusal is diagnosed");
	VASSERT(t->nentries == n && t->entries == (n > 0 ? e0 : NULL), "the table itself is unchanged");
	if (r == 0) {
		for (int j = 0; j < 3; j++)
			if (j < n) VASSERT(clkoff_get(t, j) == E[j], "clkoff_get(j) is entry j, in table order");
		VASSERT(clkoff_count(t) == n, "count");
		if (n == 3) REACH("three entries indexed");
		if (n == 1) REACH("one entry indexed");
	} else {
		if (n == 0) REACH("empty table refused");
		if (n == 2) REACH("out of memory");
	}
}
#endif

/* ------------------------------- unbounded accessor contracts ------------------------------- */
#ifdef H_ACCESSORS
int w_i, w_n;
WITNESS(clkoff_get);
/* clkoff_get(table, i) for 0 <= i < count is cell i of the index; nothing is written */
struct clkoff_entry *c_clkoff_get(struct clkoff *table, int i)
__CPROVER_requires(__CPROVER_is_fresh(table, sizeof(*table)))
__CPROVER_requires(table->nentries >= 1 && table->nentries <= 100000 && 0 <= i && i < table->nentries)
__CPROVER_requires(__CPROVER_is_fresh(table->index, (size_t) table->nentries * sizeof(struct clkoff_entry *)))
__CPROVER_requires(WBIND(clkoff_get, w_i == i && w_n == table->nentries))
__CPROVER_assigns()
__CPROVER_ensures(RV == table->index[i])
;
void h_clkoff_get(void)
{
	struct clkoff *t; int i;
	WITNESS_ON(clkoff_get);
	struct clkoff_entry *e = clkoff_get(t, i);
	if (w_i == 0 && w_n == 1) REACH("only entry");
	if (w_i == w_n - 1 && w_n == 7) REACH("last entry of seven");
}
int c_clkoff_count(struct clkoff *table)
__CPROVER_requires(__CPROVER_is_fresh(table, sizeof(*table)))
__CPROVER_assigns()
__CPROVER_ensures(RV == table->nentries)
;
void h_clkoff_count(void)
{
	struct clkoff *t;
	int n = clkoff_count(t);
	if (n == 0) REACH("empty table");
	if (n == 5) REACH("five entries");
}
#ifdef G1_HLOG
/* cfind(table, name): the look-up of name in THIS table's entries, result passed through */
struct clkoff_entry *c_cfind(struct clkoff *off, const char *name)
__CPROVER_requires(__CPROVER_is_fresh(off, sizeof(*off)))
__CPROVER_requires(g_hf_n < 1000000u)
__CPROVER_assigns(g_hf_n, g_hf_head, g_hf_key)
__CPROVER_ensures(g_hf_n == OLD(g_hf_n) + 1 && g_hf_head == (void *) off->entries && g_hf_key == name)
__CPROVER_ensures(RV == (struct clkoff_entry *) g_hf_out)
;
void h_cfind(void)
{
	struct clkoff *t; const char *name;
	struct clkoff_entry *e = cfind(t, name);
	if (e == NULL) REACH("host not in the table");
	if (e != NULL) REACH("host found");
}
#endif
#endif
