/* C05 -- affinity events of the ovni model: pre_affinity_set (OAs, the thread
 * moves itself) and pre_affinity_remote (OAr, a thread moves another one) of
 * the real ovni/event.c.  Loop-free, proved for every event, thread and CPU
 * state; the callees are replaced by contracts:
 *   cpu_migrate_thread  cr_cpu_migrate_thread  proved in harness/c05_cpu.c (bounded lists)
 *   thread_migrate_cpu  cr_thread_migrate_cpu  proved in harness/c05_thread.c
 *   loom_get_cpu        cr_loom_get_cpu        proved in harness/c05_loom.c
 *   proc_find_thread, loom_find_thread         STUBS (uthash lookups): any thread or NULL */
#include "prelude.h"
#include "chan.h"
#include "harness/c05_chanlog.h"   /* cr_chan_set, ghost log */
#include "cpu.h"
#include "thread.h"
#include "loom.h"

/* ---- ghost call log of cpu_migrate_thread: call sites rebound by macro ---- */
unsigned g_mig_n;                  /* number of calls */
struct cpu *g_mig_cpu, *g_mig_new; /* arguments of the last call */
struct thread *g_mig_th;
int g_mig_ret;                     /* its result */
struct cpu *g_oldcpu, *g_newcpu;   /* harness: the thread's CPU; the CPU the event names (NULL: none) */
struct thread *g_rt;               /* harness: the thread that migrates (NULL: remote thread not found) */
static inline int logged_cpu_migrate_thread(struct cpu *cpu, struct thread *thread, struct cpu *newcpu)
{
	/* Hand the replaced callee the harness's own pointers instead of values
	 * read back through the CPU table or returned by a replaced contract
	 * (loom_get_cpu): those have no usable value set, and dereferencing them
	 * in the callee's contract made CBMC 6.11 crash (SIGSEGV in
	 * simplify_inequality) or try every object of the program (out of
	 * memory).  That they are the same pointers is asserted first. */
	__CPROVER_assert(cpu == g_oldcpu && thread == g_rt && newcpu == g_newcpu,
		"ghosts g_oldcpu, g_rt, g_newcpu name the arguments of the migration");
	__CPROVER_assume(cpu == g_oldcpu && thread == g_rt && newcpu == g_newcpu);
	int r = (cpu_migrate_thread)(g_oldcpu, g_rt, g_newcpu);
	g_mig_cpu = cpu; g_mig_th = thread; g_mig_new = newcpu; g_mig_ret = r;
	g_mig_n++;
	return r;
}
#define cpu_migrate_thread(c, t, n) logged_cpu_migrate_thread((c), (t), (n))
/* same for thread_migrate_cpu (its effect is visible in th->cpu and the channel log) */
static inline int named_thread_migrate_cpu(struct thread *th, struct cpu *cpu)
{
	__CPROVER_assert(th == g_rt && cpu == g_newcpu,
		"ghosts g_rt, g_newcpu name the arguments of thread_migrate_cpu");
	__CPROVER_assume(th == g_rt && cpu == g_newcpu);
	return (thread_migrate_cpu)(g_rt, g_newcpu);
}
#define thread_migrate_cpu(t, c) named_thread_migrate_cpu((t), (c))
#define MIG_CALL_FRAME g_mig_n, g_mig_cpu, g_mig_new, g_mig_th, g_mig_ret

#include "ovni/event.c"             /* the real /repo/src/emu/ovni/event.c */
#include "harness/c05_cpu.h"        /* cr_cpu_migrate_thread */
#include "harness/c05_thread.h"     /* cr_thread_migrate_cpu */
#include "harness/c05_loom.h"       /* cr_loom_get_cpu */

/* ---- stubs for the uthash lookups (outside the unit): they return whatever
 * the harness chose -- any thread or NULL, independently of each other.  (An
 * assumed CONTRACT in their place leaves the returned pointer without a value
 * set; the handler dereferences it and CBMC then tries every object of the
 * program: out of memory.) ---- */
struct thread *g_pf;               /* what proc_find_thread finds */
struct thread *g_lf;               /* what loom_find_thread finds */
struct thread *proc_find_thread(struct proc *proc, int tid) { (void) proc; (void) tid; return g_pf; }
struct thread *loom_find_thread(struct loom *loom, int tid) { (void) loom; (void) tid; return g_lf; }

/* ---- heap, built by the harness (concrete allocations, nondeterministic
 * choices) ----
 * th: the thread that may migrate.  Its current CPU is absent, the loom's
 * virtual CPU, or a physical CPU.  The CPU named by the event is the virtual
 * CPU (index -1), nothing, or cell = loom->cpus_array[index], which is NULL,
 * th's current CPU, or another CPU.  Around th and in both CPUs the thread
 * lists are built as far as cpu_migrate_thread's frame reaches: next /
 * previous thread, head and tail (NULL, th itself, or other threads).  Every
 * object has arbitrary contents apart from these pointers. */
#define IDX_IN_RANGE(loom, idx) ((idx) >= 0 && (size_t) (idx) < (loom)->ncpus)

struct emu *g_emu;
struct loom *g_loom;
struct cpu *g_cell;           /* loom->cpus_array[index], NULL if index is out of range */
struct thread *g_nb_next, *g_nb_prev, *g_o_head, *g_n_head, *g_n_tail;  /* see AFFINITY_ASSIGNS */

static void *xalloc(size_t size)
{
	void *p = malloc(size);
	__CPROVER_assume(p != NULL);
	return p;
}
static struct thread *new_thread(void) { return xalloc(sizeof(struct thread)); }
static struct cpu *new_cpu(void) { return xalloc(sizeof(struct cpu)); }

/* list of a CPU that th may be in: head is nothing, th, th's predecessor or
 * another thread; the tail is the head, th, th's successor or another thread */
static void mk_list_with(struct cpu *c, struct thread *th)
{
	switch (nondet_int()) {
	case 0: c->threads = NULL; break;
	case 1: c->threads = th; break;
	case 2: c->threads = (th->cpu_prev != NULL) ? th->cpu_prev : th; break;
	default: c->threads = new_thread(); break;
	}
	if (c->threads == NULL || c->threads == th)
		return;
	switch (nondet_int()) {
	case 0: c->threads->cpu_prev = c->threads; break;
	case 1: c->threads->cpu_prev = th; break;
	case 2: c->threads->cpu_prev = (th->cpu_next != NULL) ? th->cpu_next : th; break;
	default: c->threads->cpu_prev = new_thread(); break;
	}
}
/* list of a CPU th is not in */
static void mk_list_other(struct cpu *c)
{
	if (nondet_bool()) { c->threads = NULL; return; }
	c->threads = new_thread();
	c->threads->cpu_prev = nondet_bool() ? c->threads : new_thread();
}

/* emu, event with a payload of any size, loom with its CPU table */
static void mk_emu(void)
{
	g_emu = xalloc(sizeof(struct emu));
	struct emu_ev *ev = xalloc(sizeof(struct emu_ev));
	g_emu->ev = ev;
	__CPROVER_assume(ev->payload_size <= 0x100000UL);
	/* the payload lies inside a struct ovni_ev of the stream: the object is at
	 * least a whole union (CBMC checks p->i32[0] against sizeof(*p)) */
	ev->payload = (ev->payload_size == 0) ? NULL :
		xalloc(ev->payload_size < sizeof(union ovni_ev_payload) ? sizeof(union ovni_ev_payload) : ev->payload_size);
	g_loom = xalloc(sizeof(struct loom));
	g_emu->loom = g_loom;
	__CPROVER_assume(g_loom->ncpus <= 0x7fffffffUL);          /* LOOM_CPUS_WF */
	g_loom->cpus_array = (g_loom->ncpus == 0) ? NULL : xalloc(g_loom->ncpus * sizeof(struct cpu *));
}

/* th with its list links and CPU; the cell the index names; the lists.
 * The combinations of (current CPU, named CPU) are split into six cases so
 * that in each of them the two CPU arguments of the migration are single
 * objects (measured: with pointers that may name two 50 KB objects symbolic
 * execution of the replaced callee's havoc did not finish in 4 min).  A group
 * fixes the case with -DC05_SCEN=k; together the cases cover every combination:
 *   0  no current CPU;       any index; cell NULL or another CPU
 *   1  on the virtual CPU;   index -1                      (same CPU)
 *   2  on the virtual CPU;   index != -1; cell NULL or another CPU
 *   3  on a physical CPU P;  index -1                      (to the virtual CPU)
 *   4  on a physical CPU P;  index != -1; cell NULL or P   (none / same CPU)
 *   5  on a physical CPU P;  index != -1; cell another CPU Q */
#ifndef C05_SCEN
#error "define C05_SCEN=0..5 (6: remote thread not found)"
#endif
static int pick_index(void)
{
	int idx = nondet_int();
	if (C05_SCEN == 1 || C05_SCEN == 3)
		idx = -1;   /* scenarios 0 and 6: any index */
	if (C05_SCEN == 2 || C05_SCEN == 4 || C05_SCEN == 5)
		__CPROVER_assume(idx != -1);
	return idx;
}
static void mk_thread_and_cpus(struct thread *th, int idx)
{
	th->cpu_next = nondet_bool() ? NULL : new_thread();
	switch (nondet_int()) {
	case 0: th->cpu_prev = NULL; break;
	case 1: th->cpu_prev = th; break;
	default: th->cpu_prev = new_thread(); break;
	}
	if (C05_SCEN == 0)
		th->cpu = NULL;
	else if (C05_SCEN == 1 || C05_SCEN == 2)
		th->cpu = &g_loom->vcpu;
	else
		th->cpu = new_cpu();
	if (th->cpu != NULL)
		mk_list_with(th->cpu, th);
	if (th->cpu != &g_loom->vcpu)
		mk_list_other(&g_loom->vcpu);
	g_cell = NULL;
	if (IDX_IN_RANGE(g_loom, idx)) {
		if (C05_SCEN == 4) {
			g_cell = nondet_bool() ? NULL : th->cpu;
		} else if (C05_SCEN == 5 || nondet_bool()) {
			g_cell = new_cpu();
			mk_list_other(g_cell);
		}
		g_loom->cpus_array[idx] = g_cell;
	}
}

/* name the old / new CPU and the list neighbours (see AFFINITY_ASSIGNS) */
static void name_neighbours(struct thread *th, int idx)
{
	g_oldcpu = (th != NULL) ? th->cpu : NULL;
	g_newcpu = (C05_SCEN == 1 || C05_SCEN == 3) ? &g_loom->vcpu : ((C05_SCEN == 0 || C05_SCEN == 6) && idx == -1) ? &g_loom->vcpu : g_cell;
	g_nb_next = (th != NULL) ? th->cpu_next : NULL;
	g_nb_prev = (th != NULL) ? th->cpu_prev : NULL;
	g_o_head = (g_oldcpu != NULL) ? g_oldcpu->threads : NULL;
	g_n_head = (g_newcpu != NULL) ? g_newcpu->threads : NULL;
	g_n_tail = (g_n_head != NULL) ? g_n_head->cpu_prev : NULL;
}

/* dirty callbacks of the channels involved are NULL or the callback model */
#define SHAPE_CB(th) ( \
	((th)->cpu == NULL || CPU_CHANS_CB_OK((th)->cpu)) && CPU_CHANS_CB_OK(&g_loom->vcpu) && \
	(g_cell == NULL || CPU_CHANS_CB_OK(g_cell)) && CB_OK(&(th)->chan[TH_CHAN_CPU]))

/* word k of the payload (read through an int32 pointer: the payload object is
 * only payload_size bytes long, shorter than union ovni_ev_payload) */
#define PAYLOAD_I32(emu, k) (((const int32_t *) (emu)->ev->payload)[k])

/* the CPU a logical index names (spec of loom_get_cpu; g_cell is the table
 * entry the harness stored at that index) */
#define SPEC_CPU(idx) ((idx) == -1 ? &g_loom->vcpu : g_cell)

/* Frame of a handler that migrates g_rt from g_oldcpu to g_newcpu.  The
 * objects cpu_migrate_thread's path-expressed frame reaches are named by ghosts
 * that the harness sets from the pre-state heap (bound to the paths in
 * NEIGHBOURS_BOUND; one-level targets keep the frame-inclusion check cheap):
 *   g_nb_next = g_rt->cpu_next      g_nb_prev = g_rt->cpu_prev
 *   g_o_head  = g_oldcpu->threads
 *   g_n_head  = g_newcpu->threads   g_n_tail  = g_newcpu->threads->cpu_prev */
#define NEIGHBOURS_BOUND(th) ( \
	g_nb_next == (th)->cpu_next && g_nb_prev == (th)->cpu_prev && \
	g_o_head == (g_oldcpu != NULL ? g_oldcpu->threads : (struct thread *) NULL) && \
	g_n_head == (g_newcpu != NULL ? g_newcpu->threads : (struct thread *) NULL) && \
	g_n_tail == (g_n_head != NULL ? g_n_head->cpu_prev : (struct thread *) NULL))
#define AFFINITY_ASSIGNS \
__CPROVER_assigns(DIAG_FRAME) \
__CPROVER_assigns(g_guards && !g_same: CS_LOG_FRAME, g_cb_calls, g_cb_ret, MIG_CALL_FRAME, \
	CPU_BLOCK(g_oldcpu), CPU_CHANS_W(g_oldcpu), CPU_BLOCK(g_newcpu), CPU_CHANS_W(g_newcpu), \
	g_rt->cpu_prev, g_rt->cpu_next, \
	g_rt->cpu, g_rt->chan[TH_CHAN_CPU].data.value, g_rt->chan[TH_CHAN_CPU].is_dirty) \
__CPROVER_assigns(g_guards && !g_same && g_nb_next != NULL: g_nb_next->cpu_prev) \
__CPROVER_assigns(g_guards && !g_same && g_nb_prev != NULL: g_nb_prev->cpu_next) \
__CPROVER_assigns(g_guards && !g_same && g_o_head != NULL: g_o_head->cpu_prev) \
__CPROVER_assigns(g_guards && !g_same && g_n_head != NULL: g_n_head->cpu_prev, g_n_tail->cpu_next)

/* empty logs; g_cell is the table entry the index names */
#define AFF_PRE (g_cs_n == 0 && g_mig_n == 0 && g_cb_calls < 100u && DIAG_PRE && \
	(IDX_IN_RANGE(g_loom, g_idx) ? g_loom->cpus_array[g_idx] == g_cell : g_cell == NULL))

/* pre-state facts bound in ghosts (enforce-only contracts) */
int g_guards;                 /* every guard of the handler holds */
int g_same;                   /* ... and the thread is already on the named CPU */
int g_vcpu;                   /* ... and the named CPU is the virtual one */
int g_idx, g_tid;             /* payload words, chosen by the harness */
int w_idx, w_tid, w_hascpu, w_active, w_state, w_found_proc, w_found_loom, w_on_vcpu;
unsigned long w_psize, w_ncpus;
int w_cell_null, w_cell_same;  /* replay: the table entry the index names is empty / is the thread's current CPU */

/* effect of a migration that passed the guards, common to both handlers */
#define MIGRATION_EFFECT(th, ret) ( \
	g_mig_n == 1 && g_mig_cpu == g_oldcpu && g_mig_th == (th) && g_mig_new == g_newcpu && \
	(g_mig_ret != 0 ? ((ret) == -1 && (th)->cpu == g_oldcpu) : \
		((th)->cpu == g_newcpu && g_cs_n >= 1 && g_cs_n <= 11 && \
		 CS_ENTRY_IS(g_cs_n - 1, &(th)->chan[TH_CHAN_CPU], VALUE_INT64, (th)->cpu->gindex) && \
		 ((ret) == 0) == (g_cs_ret[g_cs_n - 1] == 0))))

/* ======================= pre_affinity_set (OAs) ======================= */
#define SET_GUARDS(emu) ((emu)->thread->cpu != NULL && (emu)->thread->is_active && \
	(emu)->ev->payload_size == 4 && SPEC_CPU(PAYLOAD_I32(emu, 0)) != NULL)

static int c_pre_affinity_set(struct emu *emu)
__CPROVER_requires(emu == g_emu && emu->thread == g_rt && SHAPE_CB(g_rt) && AFF_PRE)
__CPROVER_requires(emu->ev->payload_size < 4 || PAYLOAD_I32(emu, 0) == g_idx)
__CPROVER_requires(w_idx == g_idx && w_psize == emu->ev->payload_size && w_hascpu == (g_rt->cpu != NULL) &&
	w_on_vcpu == (g_rt->cpu == &g_loom->vcpu) && w_active == g_rt->is_active && w_ncpus == g_loom->ncpus &&
	w_cell_null == (g_cell == NULL) && w_cell_same == (g_cell != NULL && g_cell == g_rt->cpu))
__CPROVER_requires(g_oldcpu == g_rt->cpu && g_newcpu == SPEC_CPU(g_idx) && NEIGHBOURS_BOUND(g_rt))
__CPROVER_requires(g_guards == SET_GUARDS(emu) && g_same == (g_rt->cpu == g_newcpu) && g_vcpu == (g_idx == -1))
AFFINITY_ASSIGNS
__CPROVER_ensures(__CPROVER_return_value == 0 || __CPROVER_return_value == -1)
/* a guard fails (no CPU, not active, payload size, unknown CPU index):
 * refused with a diagnostic, nothing touched (frame) */
__CPROVER_ensures(g_guards || (__CPROVER_return_value == -1 && g_err > __CPROVER_old(g_err)))
/* already on the named CPU: accepted, nothing touched (frame), no diagnostic */
__CPROVER_ensures(!(g_guards && g_same) || (__CPROVER_return_value == 0 && g_err == __CPROVER_old(g_err)))
/* otherwise: one migration from the old to the named CPU; if it is accepted the
 * thread points to the named CPU and its CPU channel receives that CPU's gindex */
__CPROVER_ensures(!(g_guards && !g_same) || MIGRATION_EFFECT(emu->thread, __CPROVER_return_value))
__CPROVER_ensures(__CPROVER_return_value == 0 || g_err > __CPROVER_old(g_err))
;

void h_pre_affinity_set(void)
{
	mk_emu();
	g_idx = pick_index();
	g_rt = new_thread();
	g_emu->thread = g_rt;
	mk_thread_and_cpus(g_rt, g_idx);
	name_neighbours(g_rt, g_idx);
	chan_cb_t keep = stub_dirty_cb; (void) keep;
	WITNESS_OFF(chan_set); WITNESS_OFF(thread_migrate_cpu); WITNESS_OFF(loom_get_cpu);
	int r = pre_affinity_set(g_emu);
#if C05_SCEN == 0
	if (r != 0 && !w_hascpu && w_active && w_psize == 4) REACH("thread without cpu refused");
#elif C05_SCEN == 1
	if (r == 0 && g_guards && g_same && g_vcpu) REACH("already on the virtual cpu: no-op");
	if (r != 0 && w_hascpu && !w_active) REACH("inactive thread refused");
	if (r != 0 && w_hascpu && w_active && w_psize != 4) REACH("bad payload size refused");
#elif C05_SCEN == 2
	if (r == 0 && g_guards && !g_same && w_on_vcpu) REACH("thread moves itself from the virtual to a physical cpu");
	if (r != 0 && w_hascpu && w_active && w_psize == 4 && !g_guards) REACH("unknown cpu index refused");
	if (r != 0 && g_guards && !g_same && g_mig_ret == 0) REACH("thread channel write failed");
#elif C05_SCEN == 3
	if (r == 0 && g_guards && !g_same && g_vcpu) REACH("thread moves itself to the virtual cpu");
	if (r != 0 && g_guards && g_mig_ret != 0) REACH("cpu migration refused");
#elif C05_SCEN == 4
	if (r == 0 && g_guards && g_same && !g_vcpu) REACH("already on that physical cpu: no-op");
	if (r != 0 && w_hascpu && w_active && w_psize == 4 && !g_guards) REACH("index of an empty cpu slot refused");
#else
	if (r == 0 && g_guards && !g_same && !g_vcpu && !w_on_vcpu) REACH("thread moves itself between physical cpus");
	if (r != 0 && g_guards && g_mig_ret != 0) REACH("cpu migration refused");
#endif
}

/* ======================= pre_affinity_remote (OAr) ======================= */
#define REMOTE_GUARDS(emu) ((emu)->ev->payload_size == 8 && g_rt != NULL && \
	g_rt->state != TH_ST_DEAD && g_rt->state != TH_ST_UNKNOWN && g_rt->cpu != NULL && \
	SPEC_CPU(PAYLOAD_I32(emu, 0)) != NULL)

static int c_pre_affinity_remote(struct emu *emu)
__CPROVER_requires(emu == g_emu && (g_rt == NULL || SHAPE_CB(g_rt)) && AFF_PRE)
__CPROVER_requires(emu->ev->payload_size < 8 || (PAYLOAD_I32(emu, 0) == g_idx && PAYLOAD_I32(emu, 1) == g_tid))
/* the lookups find any thread or none; the process is searched first */
__CPROVER_requires(g_rt == (g_pf != NULL ? g_pf : g_lf))
__CPROVER_requires(w_idx == g_idx && w_tid == g_tid && w_psize == emu->ev->payload_size &&
	w_found_proc == (g_pf != NULL) && w_found_loom == (g_lf != NULL) &&
	w_hascpu == (g_rt != NULL && g_rt->cpu != NULL) && w_on_vcpu == (g_rt != NULL && g_rt->cpu == &g_loom->vcpu) &&
	w_state == (g_rt != NULL ? (int) g_rt->state : -1) && w_ncpus == g_loom->ncpus &&
	w_cell_null == (g_cell == NULL) && w_cell_same == (g_cell != NULL && g_rt != NULL && g_cell == g_rt->cpu))
__CPROVER_requires(g_newcpu == SPEC_CPU(g_idx) && (g_rt == NULL || (g_oldcpu == g_rt->cpu && NEIGHBOURS_BOUND(g_rt))))
__CPROVER_requires(g_guards == REMOTE_GUARDS(emu) && g_same == (g_rt != NULL && g_rt->cpu == g_newcpu) && g_vcpu == (g_idx == -1))
AFFINITY_ASSIGNS
__CPROVER_ensures(__CPROVER_return_value == 0 || __CPROVER_return_value == -1)
/* a guard fails (payload size, thread not found, dead / unknown state, no CPU,
 * unknown CPU index): refused with a diagnostic, nothing touched (frame) */
__CPROVER_ensures(g_guards || (__CPROVER_return_value == -1 && g_err > __CPROVER_old(g_err)))
/* target thread already on the named CPU: accepted, nothing touched */
__CPROVER_ensures(!(g_guards && g_same) || (__CPROVER_return_value == 0 && g_err == __CPROVER_old(g_err)))
__CPROVER_ensures(!(g_guards && !g_same) || MIGRATION_EFFECT(g_rt, __CPROVER_return_value))
__CPROVER_ensures(__CPROVER_return_value == 0 || g_err > __CPROVER_old(g_err))
;

void h_pre_affinity_remote(void)
{
	mk_emu();
	g_idx = pick_index();
	g_tid = nondet_int();
	/* what the lookups find.  Scenario 6: nothing.  Otherwise the thread T, in
	 * the process or else in the loom (a thread found in the loom while the
	 * process lookup succeeds is never looked at: loom_find_thread is then not
	 * called).  A pointer "T or NULL" to the 32 KB thread in the clauses makes
	 * CBMC run out of memory, hence the separate scenario. */
#if C05_SCEN == 6
	g_pf = NULL; g_lf = NULL; g_rt = NULL; g_cell = NULL;
	mk_list_other(&g_loom->vcpu);
#else
	struct thread *T = new_thread();
	g_pf = nondet_bool() ? T : NULL;
	g_lf = (g_pf == NULL || nondet_bool()) ? T : NULL;
	g_rt = T;
	mk_thread_and_cpus(T, g_idx);
#endif
	name_neighbours(g_rt, g_idx);
	chan_cb_t keep = stub_dirty_cb; (void) keep;
	WITNESS_OFF(chan_set); WITNESS_OFF(thread_migrate_cpu); WITNESS_OFF(loom_get_cpu);
	int r = pre_affinity_remote(g_emu);
#if C05_SCEN == 6
	if (r != 0 && w_psize == 8 && !w_found_proc && !w_found_loom) REACH("unknown thread refused");
	if (r != 0 && w_psize != 8) REACH("bad payload size refused (no target thread)");
#elif C05_SCEN == 0
	if (r != 0 && w_psize == 8 && w_state == TH_ST_PAUSED && !w_hascpu) REACH("thread without cpu refused");
	if (r != 0 && w_psize != 8) REACH("bad payload size refused");
#elif C05_SCEN == 1
	if (r == 0 && g_guards && g_same && g_vcpu) REACH("already on the virtual cpu: no-op");
	if (r != 0 && w_psize == 8 && w_state == TH_ST_DEAD) REACH("dead thread refused");
	if (r != 0 && w_psize == 8 && w_state == TH_ST_UNKNOWN) REACH("thread in unknown state refused");
#elif C05_SCEN == 2
	if (r == 0 && g_guards && !g_same && w_on_vcpu && w_found_proc) REACH("thread of the same process moved from the virtual to a physical cpu");
	if (r != 0 && w_psize == 8 && w_state == TH_ST_PAUSED && w_hascpu && !g_guards) REACH("unknown cpu index refused");
#elif C05_SCEN == 3
	if (r == 0 && g_guards && !g_same && g_vcpu && !w_found_proc) REACH("thread of another process moved to the virtual cpu");
	if (r != 0 && g_guards && g_mig_ret != 0) REACH("cpu migration refused");
#elif C05_SCEN == 4
	if (r == 0 && g_guards && g_same && !g_vcpu && w_state == TH_ST_RUNNING) REACH("running thread already on that physical cpu: no-op");
	if (r != 0 && w_psize == 8 && w_state == TH_ST_COOLING && w_hascpu && !g_guards) REACH("index of an empty cpu slot refused");
#else
	if (r == 0 && g_guards && !g_same && !g_vcpu && w_state == TH_ST_PAUSED) REACH("paused thread moved between physical cpus");
	if (r != 0 && g_guards && g_mig_ret != 0) REACH("cpu migration refused");
	if (r != 0 && g_guards && !g_same && g_mig_ret == 0) REACH("thread channel write failed");
#endif
}
