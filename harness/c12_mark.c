/* C12 -- mark_event (real ovni/mark.c): OM[ / OM] / OM= need exactly 12 bytes of
 * payload (i64 value + i32 type); any other size is refused before anything is
 * looked up or called. */
#include "prelude.h"
#include "harness/c12_handlers.h"
#include "ovni/mark.c"       /* real /repo/src/emu/ovni/mark.c */

/* other modules: call counted (none may be reached on the refused path) */
void *extend_get(struct extend *ext, int id) { (void) ext; (void) id; g_calls++; void *p = malloc(sizeof(struct ovni_emu) + sizeof(struct ovni_thread)); __CPROVER_assume(p != NULL); return p; }
int chan_set(struct chan *c, struct value v) { (void) c; (void) v; g_calls++; return nondet_int(); }
int chan_push(struct chan *c, struct value v) { (void) c; (void) v; g_calls++; return nondet_int(); }
int chan_pop(struct chan *c, struct value v) { (void) c; (void) v; g_calls++; return nondet_int(); }
/* find_mark_type is a uthash lookup (HASH_FIND: trusted, not verified): assumed contract */
struct mark_type *c_find_mark_type(struct ovni_mark_emu *m, long type)
__CPROVER_assigns(g_calls)
__CPROVER_ensures(g_calls == __CPROVER_old(g_calls) + 1)
__CPROVER_ensures(__CPROVER_return_value == NULL || __CPROVER_is_fresh(__CPROVER_return_value, sizeof(struct mark_type)))
;

/* The path behind the guard is cut by the precondition (the accepted path indexes
 * the per-thread mark channel array, which belongs to C06/C19, not to this claim). */
WITNESS(mark_event);
int c_mark_event(struct emu *emu)
REQ_EMU_EV(emu)
__CPROVER_requires(__CPROVER_is_fresh(emu->thread, sizeof(struct thread)))
__CPROVER_requires(DIAG_PRE && CALLS_PRE)
__CPROVER_requires(emu->ev->payload_size != 12)
__CPROVER_requires(WBIND(mark_event, w_psize == emu->ev->payload_size))
__CPROVER_assigns(DIAG_FRAME)
__CPROVER_ensures(__CPROVER_return_value == -1 && g_err > __CPROVER_old(g_err))
;
void h_mark_event(void)
{
	struct emu *emu;
	WITNESS_ON(mark_event);
	int r = mark_event(emu);
	if (w_psize == 0) REACH("mark event without payload refused");
	if (w_psize == 8) REACH("mark event with 8 bytes refused");
	if (w_psize == 16) REACH("mark event with 16 bytes refused");
	if (w_psize == 11) REACH("mark event with 11 bytes refused");
}
