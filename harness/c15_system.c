/* C15 -- system level of the real system.c: loom comparators (cmp_loom_rank,
 * cmp_loom_id), choice of the sort criterion (set_sort_criteria, sort_lpt) and
 * the global CPU list / indices (init_global_lists, init_global_indices). */
#include "prelude.h"
#include "utlist.h"
#include "uthash.h"

/* ---- trusted base of this unit ----
 * utlist DL_SORT is not verified: rebound to a log of (list head, comparator);
 * the list is left as it is (any permutation would do: what is proved about
 * sort_lpt does not depend on the order). */
enum c15_cmp { C15_CMP_NONE = 0, C15_CMP_cmp_loom_rank = 1, C15_CMP_cmp_loom_id = 2 };
unsigned g_dlsort_n; void *g_dlsort_head; int g_dlsort_cmp;
#undef DL_SORT
#define DL_SORT(list, cmp) { g_dlsort_n++; g_dlsort_head = (void *) &(list); g_dlsort_cmp = C15_CMP_##cmp; }

/* strcmp: either CBMC's own model (bounded preorder group) or, for the exact
 * contract of cmp_loom_id, a log of the two arguments with an arbitrary result */
#ifdef C15_STRCMP_LOG
const char *g_sc_a, *g_sc_b; int g_sc_ret; unsigned g_sc_n;
int strcmp(const char *a, const char *b) { g_sc_a = a; g_sc_b = b; g_sc_n++; return g_sc_ret; }
#endif

#include "system.c"               /* the real /repo/src/emu/system.c */
#include "harness/c15_spec.h"

#define RV __CPROVER_return_value
#define OLD(e) __CPROVER_old(e)

/* functions of loom.c (outside this unit): most general behaviour + call log */
unsigned g_srm_n; struct loom *g_srm_loom[3]; int g_srm_ret[3], g_srm_en[3];
int w_srm_ret0, w_srm_ret1, w_srm_ret2, w_srm_en0, w_srm_en1, w_srm_en2;   /* replay witnesses (scalars) */
int loom_set_rank_min(struct loom *loom)
{
	unsigned k = g_srm_n++;
	int r = nondet_bool() ? -1 : 0;
	int en = nondet_bool() ? 1 : 0;
	if (k == 0) { w_srm_ret0 = r; w_srm_en0 = en; } else if (k == 1) { w_srm_ret1 = r; w_srm_en1 = en; } else if (k == 2) { w_srm_ret2 = r; w_srm_en2 = en; }
	loom->rank_enabled = en;      /* may be set even when it fails (loom.c does) */
	loom->rank_min = nondet_int();
	if (k < 3) { g_srm_loom[k] = loom; g_srm_ret[k] = r; g_srm_en[k] = en; }
	return r;
}
unsigned g_ls_n; struct loom *g_ls_loom[3];
void loom_sort(struct loom *loom)
{
	unsigned k = g_ls_n++;
	if (k < 3) g_ls_loom[k] = loom;
}

/* ---------------- cmp_loom_rank: exact ---------------- */
int c_cmp_loom_rank(struct loom *a, struct loom *b)
__CPROVER_requires(__CPROVER_is_fresh(a, sizeof(*a)) && (__CPROVER_pointer_equals(b, a) || __CPROVER_is_fresh(b, sizeof(*b))))
__CPROVER_assigns()
__CPROVER_ensures(RV == SPEC_CMP3(a->rank_min, b->rank_min))
;
void h_cmp_loom_rank(void)
{
	struct loom *a, *b;
	int r = cmp_loom_rank(a, b);
	if (r < 0) REACH("lower minimum rank first");
	if (r > 0) REACH("higher minimum rank last");
	if (r == 0) REACH("equal minimum ranks");
}

/* ---------------- cmp_loom_id: strcmp of the two ids, in this order ---------------- */
#ifdef C15_STRCMP_LOG
int c_cmp_loom_id(struct loom *a, struct loom *b)
__CPROVER_requires(__CPROVER_is_fresh(a, sizeof(*a)) && (__CPROVER_pointer_equals(b, a) || __CPROVER_is_fresh(b, sizeof(*b))))
__CPROVER_requires(g_sc_n < 1000000u)
__CPROVER_assigns(g_sc_a, g_sc_b, g_sc_n)
__CPROVER_ensures(RV == g_sc_ret && g_sc_n == OLD(g_sc_n) + 1 && g_sc_a == a->id && g_sc_b == b->id)
;
void h_cmp_loom_id(void)
{
	struct loom *a, *b;
	int r = cmp_loom_id(a, b);
	if (r < 0) REACH("name a before name b");
	if (r > 0) REACH("name a after name b");
}
#endif

/* total preorders on three symbolic looms, run on the real comparators; names of at most two characters */
void h_system_preorders(void)
{
	struct loom *a = malloc(sizeof(struct loom)), *b = malloc(sizeof(struct loom)), *c = malloc(sizeof(struct loom));
	__CPROVER_assume(a != NULL && b != NULL && c != NULL);
	a->rank_min = nondet_int(); b->rank_min = nondet_int(); c->rank_min = nondet_int();
	{
		int ab = cmp_loom_rank(a, b), ba = cmp_loom_rank(b, a), bc = cmp_loom_rank(b, c), ac = cmp_loom_rank(a, c), aa = cmp_loom_rank(a, a);
		SPEC_PREORDER_ASSERTS(ab, ba, bc, ac, aa, a->rank_min, b->rank_min, c->rank_min);
		if (ab < 0 && bc < 0) REACH("minimum ranks strictly ascending");
	}
#ifndef C15_STRCMP_LOG
	a->name[0] = nondet_char(); a->name[1] = nondet_char(); a->name[2] = '\0'; a->id = a->name;
	b->name[0] = nondet_char(); b->name[1] = nondet_char(); b->name[2] = '\0'; b->id = b->name;
	c->name[0] = nondet_char(); c->name[1] = nondet_char(); c->name[2] = '\0'; c->id = c->name;
	{
		int ab = cmp_loom_id(a, b), ba = cmp_loom_id(b, a), bc = cmp_loom_id(b, c), ac = cmp_loom_id(a, c), aa = cmp_loom_id(a, a);
		VASSERT(SPEC_SIGN(ab) == -SPEC_SIGN(ba), "cmp_loom_id antisymmetric in sign");
		VASSERT(aa == 0, "cmp_loom_id reflexive");
		VASSERT(!(ab <= 0 && bc <= 0) || ac <= 0, "cmp_loom_id transitive (<=)");
		VASSERT(!(ab < 0 && bc <= 0) || ac < 0, "cmp_loom_id transitive (strict)");
		VASSERT(!(ab == 0 && bc == 0) || ac == 0, "cmp_loom_id: ties are an equivalence");
		/* ties exactly for equal names */
		VASSERT((ab == 0) == (a->name[0] == b->name[0] && (a->name[0] == '\0' || a->name[1] == b->name[1])), "cmp_loom_id ties exactly on equal names");
		/* ascending by the first differing byte (as unsigned char) */
		VASSERT(!((a->name[0] & 0xff) < (b->name[0] & 0xff)) || ab < 0, "cmp_loom_id orders by name, ascending");
		if (ab < 0 && bc < 0) REACH("names strictly ascending");
		if (ab == 0 && a->name[0] != '\0') REACH("equal non-empty names");
	}
#endif
}

/* ---------------- loom chains through ->next (bounded: <= 3 looms) ---------------- */
#define L0(s) ((s)->looms)
#define L1(s) (L0(s)->next)
#define L2(s) (L1(s)->next)
#define LLEN3(s) (L0(s) == NULL ? 0 : L1(s) == NULL ? 1 : L2(s) == NULL ? 2 : 3)
#define SYS_LOOMS3_PRE(s) ( \
	(L0(s) == NULL || (__CPROVER_is_fresh(L0(s), sizeof(struct loom)) && \
		(L1(s) == NULL || (__CPROVER_is_fresh(L1(s), sizeof(struct loom)) && \
			(L2(s) == NULL || (__CPROVER_is_fresh(L2(s), sizeof(struct loom)) && L2(s)->next == NULL)))))))

/* ---------------- set_sort_criteria ----------------
 * looms are sorted by minimum rank exactly when EVERY loom has rank
 * information (an order-free condition); a loom whose rank information is
 * contradictory stops the emulator. */
int w_sc_n;
struct loom *g_sc_l0, *g_sc_l1, *g_sc_l2;
#define SRM_OK(k) (w_sc_n <= (k) || g_srm_ret[k] == 0)
#define SRM_EN(k) (w_sc_n <= (k) || g_srm_en[k])
int c_set_sort_criteria(struct system *sys)
__CPROVER_requires(__CPROVER_is_fresh(sys, sizeof(*sys)) && SYS_LOOMS3_PRE(sys))
__CPROVER_requires(DIAG_PRE && g_srm_n == 0 && sys->sort_by_rank == 0)
__CPROVER_requires(w_sc_n == LLEN3(sys) && g_sc_l0 == L0(sys) && (L0(sys) == NULL || (g_sc_l1 == L1(sys) && (L1(sys) == NULL || g_sc_l2 == L2(sys)))))
__CPROVER_assigns(sys->sort_by_rank, DIAG_FRAME, g_srm_n,
	__CPROVER_object_whole(g_srm_loom), __CPROVER_object_whole(g_srm_ret), __CPROVER_object_whole(g_srm_en))
__CPROVER_assigns(w_srm_ret0, w_srm_ret1, w_srm_ret2, w_srm_en0, w_srm_en1, w_srm_en2)   /* replay witnesses written by the loom_set_rank_min stub */
__CPROVER_assigns(sys->looms != NULL: sys->looms->rank_enabled, sys->looms->rank_min)
__CPROVER_assigns(sys->looms != NULL && sys->looms->next != NULL: sys->looms->next->rank_enabled, sys->looms->next->rank_min)
__CPROVER_assigns(sys->looms != NULL && sys->looms->next != NULL && sys->looms->next->next != NULL:
	sys->looms->next->next->rank_enabled, sys->looms->next->next->rank_min)
/* refused exactly when some loom's rank information was refused; it stops at the first one */
__CPROVER_ensures(g_srm_n >= 0 && g_srm_n <= (unsigned) w_sc_n)
__CPROVER_ensures((RV == 0) == (g_srm_n == (unsigned) w_sc_n && SRM_OK(0) && SRM_OK(1) && SRM_OK(2)))
__CPROVER_ensures(RV == 0 || (RV == -1 && g_err > OLD(g_err) && g_srm_n >= 1 && g_srm_ret[g_srm_n - 1] != 0 && sys->sort_by_rank == 0))
/* every loom got its rank_min computed, once, in list order */
__CPROVER_ensures(RV != 0 || ((w_sc_n < 1 || g_srm_loom[0] == g_sc_l0) && (w_sc_n < 2 || g_srm_loom[1] == g_sc_l1) && (w_sc_n < 3 || g_srm_loom[2] == g_sc_l2)))
/* by rank iff all looms have ranks */
__CPROVER_ensures(RV != 0 || (sys->sort_by_rank == 1) == (SRM_EN(0) && SRM_EN(1) && SRM_EN(2)))
__CPROVER_ensures(RV != 0 || sys->sort_by_rank == 0 || sys->sort_by_rank == 1)
;

void h_set_sort_criteria(void)
{
	struct system *sys;
	int r = set_sort_criteria(sys);
	if (r == 0 && w_sc_n == 3 && g_srm_en[0] && g_srm_en[1] && g_srm_en[2]) REACH("three looms, all with ranks: sort by rank");
	if (r == 0 && w_sc_n == 3 && g_srm_en[0] && !g_srm_en[1] && g_srm_en[2]) REACH("a loom without ranks in the middle: sort by name");
	if (r == 0 && w_sc_n == 2 && !g_srm_en[0] && !g_srm_en[1]) REACH("no ranks at all: sort by name");
	if (r != 0 && w_sc_n == 3 && g_srm_n == 2) REACH("second loom refused");
}

/* ---------------- sort_lpt: the comparator that was chosen is the one used ---------------- */
int w_sl_n, w_sl_by_rank;
void c_sort_lpt(struct system *sys)
__CPROVER_requires(__CPROVER_is_fresh(sys, sizeof(*sys)) && SYS_LOOMS3_PRE(sys))
__CPROVER_requires(DIAG_PRE && g_dlsort_n == 0 && g_ls_n == 0)
__CPROVER_requires(w_sl_n == LLEN3(sys) && w_sl_by_rank == sys->sort_by_rank &&
	g_sc_l0 == L0(sys) && (L0(sys) == NULL || (g_sc_l1 == L1(sys) && (L1(sys) == NULL || g_sc_l2 == L2(sys)))))
__CPROVER_assigns(DIAG_FRAME, g_dlsort_n, g_dlsort_head, g_dlsort_cmp, g_ls_n, __CPROVER_object_whole(g_ls_loom))
/* the loom list is sorted once, by minimum rank when the criterion says so, else by name */
__CPROVER_ensures(g_dlsort_n == 1 && g_dlsort_head == (void *) &sys->looms &&
	g_dlsort_cmp == (w_sl_by_rank ? C15_CMP_cmp_loom_rank : C15_CMP_cmp_loom_id))
/* and the contents of every loom are sorted too */
__CPROVER_ensures(g_ls_n == (unsigned) w_sl_n && (w_sl_n < 1 || g_ls_loom[0] == g_sc_l0) && (w_sl_n < 2 || g_ls_loom[1] == g_sc_l1) && (w_sl_n < 3 || g_ls_loom[2] == g_sc_l2))
;

void h_sort_lpt(void)
{
	struct system *sys;
	sort_lpt(sys);
	if (w_sl_by_rank && w_sl_n == 3) REACH("three looms sorted by rank");
	if (!w_sl_by_rank && w_sl_n == 2) REACH("two looms sorted by name");
}
