/* C13 -- the emulator-defined base timelines: real src/emu/thread.c (default) or src/emu/cpu.c (-DUNIT_CPU)
 *
 * thread_connect / cpu_connect register one PRV row per channel at row = gindex; the thread types
 * are declared in the .pcf by thread_create_pcf_types with a label for every thread state; the CPU
 * affinity timeline prints cpu gindex + 1 (PRV_NEXT) and cpu_add_to_pcf_type labels exactly that
 * value.  Loops run over the constant channel tables (TH_CHAN_MAX = 3, CPU_CHAN_MAX = 5): unwound
 * completely.  Everything outside the unit is a logging stub. */
#include "prelude.h"
#include "c13_io.h"
#include "pv/pvt.h"
#include "pv/pcf.h"
#include "pv/prv.h"
#include "pv/prf.h"
#include "recorder.h"
#include "bay.h"
#include "emu_prv.h"
#include "thread.h"
#include "cpu.h"

static int c13_print(int nargs, FILE *f, const char *fmt, long a, long b, long c, long d)
{ (void) nargs; (void) f; (void) fmt; (void) a; (void) b; (void) c; (void) d; return nondet_int(); }

int g_k;                                 /* observed ordinal: arbitrary */
int g_breg_n; void *g_b_bay, *g_b_chan;
int bay_register(struct bay *bay, struct chan *chan)
{
	if (g_breg_n == g_k) { g_b_bay = bay; g_b_chan = chan; }
	g_breg_n++;
	if (nondet_bool()) { g_lowfail++; return -1; }
	return 0;
}
int g_reg_n, g_neg_reg; long g_o_type, g_o_row, g_o_flags; void *g_o_prv, *g_o_bay, *g_o_chan;
int prv_register(struct prv *prv, long row, long type, struct bay *bay, struct chan *chan, long flags)
{
	if (type < 0) g_neg_reg++;
	if (g_reg_n == g_k) { g_o_type = type; g_o_row = row; g_o_flags = flags; g_o_prv = prv; g_o_bay = bay; g_o_chan = chan; }
	g_reg_n++;
	if (nondet_bool()) { g_lowfail++; return -1; }
	return 0;
}
#define REG_FRAME g_breg_n, g_b_bay, g_b_chan, g_reg_n, g_neg_reg, g_o_type, g_o_row, g_o_flags, g_o_prv, g_o_bay, g_o_chan
struct pvt *g_pvt; char g_find_c; unsigned g_find_n;
struct pvt *recorder_find_pvt(struct recorder *rec, const char *name)
{
	(void) rec;
	g_find_n++; g_find_c = name[0];
	if (g_pvt == NULL) g_lowfail++;
	return g_pvt;
}
/* pcf: the n-th declared type is the object g_types[n] */
static struct pcf_type g_types[4];
int g_addtype_n; int g_t_id; void *g_t_pcf;
struct pcf_type *pcf_add_type(struct pcf *pcf, int type_id, const char *label)
{
	(void) label;
	if (g_addtype_n == g_k) { g_t_id = type_id; g_t_pcf = pcf; }
	int n = g_addtype_n++;
	if (nondet_bool() || n >= 4) { g_lowfail++; return NULL; }
	return &g_types[n];
}
static struct pcf_value g_value_obj;
int g_addval_n; int g_want_v; unsigned g_seen_v; unsigned g_badtype_v; void *g_lab_type;
int g_v_value; void *g_v_type, *g_v_label;
struct pcf_value *pcf_add_value(struct pcf_type *type, int value, const char *label)
{
	g_v_value = value; g_v_type = type; g_v_label = (void *) label;
	if (value == g_want_v) g_seen_v++;
	if ((void *) type != g_lab_type) g_badtype_v++;
	g_addval_n++;
	if (nondet_bool()) { g_lowfail++; return NULL; }
	return &g_value_obj;
}
struct pcf_type *g_ft_item; int g_ft_id; void *g_ft_pcf; unsigned g_ft_n;
struct pcf_type *pcf_find_type(struct pcf *pcf, int type_id) { g_ft_n++; g_ft_id = type_id; g_ft_pcf = pcf; return g_ft_item; }
#define PCF_FRAME g_addtype_n, g_t_id, g_t_pcf, g_addval_n, g_seen_v, g_badtype_v, g_v_value, g_v_type, g_v_label

#include "c13_pvtstubs.h"
#include "pv/pvt.c"          /* real: pvt_get_prv */

#define NOT_NEXT_ZERO(f) (((f) & PRV_ZERO) == 0)
#define PVT_OBJ(p) ((p) == NULL || __CPROVER_is_fresh(p, sizeof(struct pvt)))

#ifndef UNIT_CPU
#include "thread.c"          /* the real /repo/src/emu/thread.c */

/* the documented thread timelines: type ids of emu_prv.h per channel */
#define TH_TYPE(k) ((k) == TH_CHAN_CPU ? PRV_THREAD_CPU : ((k) == TH_CHAN_TID ? PRV_THREAD_TID : PRV_THREAD_STATE))

int w_init;
int c_thread_connect(struct thread *th, struct bay *bay, struct recorder *rec)
__CPROVER_requires(__CPROVER_is_fresh(th, sizeof(struct thread)) && PVT_OBJ(g_pvt) && w_init == th->is_init)
__CPROVER_requires(g_k >= 0 && g_k < TH_CHAN_MAX && g_breg_n == 0 && g_reg_n == 0 && g_neg_reg == 0 && g_find_n == 0 && DIAG_PRE && LOW_PRE)
__CPROVER_assigns(REG_FRAME, g_find_n, g_find_c, g_lowfail, DIAG_FRAME)
__CPROVER_ensures((RV == 0) == (th->is_init != 0 && g_lowfail == OLD(g_lowfail)))
__CPROVER_ensures(RV == 0 || (RV == -1 && g_err > OLD(g_err)))
/* accepted: every channel enters the bay and gets one row of the trace named "thread" ... */
__CPROVER_ensures(RV != 0 || (g_find_c == 't' && g_breg_n == TH_CHAN_MAX && g_reg_n == TH_CHAN_MAX && g_neg_reg == 0))
/* ... at row gindex, with the documented type of that timeline */
__CPROVER_ensures(RV != 0 || (g_o_row == (long) th->gindex && g_o_type == TH_TYPE(g_k) && g_o_prv == (void *) &g_pvt->prv &&
	g_o_bay == (void *) bay && g_o_chan == (void *) &th->chan[g_k] && g_b_chan == (void *) &th->chan[g_k] && g_b_bay == (void *) bay))
/* the CPU-affinity timeline (and only it) prints value + 1: CPU gindex 0 becomes 1, never the forbidden 0 */
__CPROVER_ensures(RV != 0 || ((g_k == TH_CHAN_CPU) == ((g_o_flags & PRV_NEXT) != 0) && NOT_NEXT_ZERO(g_o_flags)))
;
void h_thread_connect(void)
{
	struct thread *th; struct bay *bay; struct recorder *rec;
	int r = thread_connect(th, bay, rec);
	if (r == 0 && g_k == TH_CHAN_CPU) REACH("connected, affinity row observed");
	if (r == 0 && g_k == TH_CHAN_STATE) REACH("connected, state row observed");
	if (r != 0 && !w_init) REACH("uninitialised thread refused");
	if (r != 0 && w_init) REACH("lower failure propagated");
}

int c_thread_create_pcf_types(struct pcf *pcf)
/* DFCC havocs statics: the label table of thread.c (an array of non-const pointers) is pinned to its initialiser */
__CPROVER_requires(pcf_labels[TH_CHAN_CPU] == NULL && pcf_labels[TH_CHAN_TID] == NULL && __CPROVER_pointer_equals(pcf_labels[TH_CHAN_STATE], &state_name))
__CPROVER_requires(g_k >= 0 && g_k < TH_CHAN_MAX && g_addtype_n == 0 && g_addval_n == 0 && g_seen_v == 0 && g_badtype_v == 0 && DIAG_PRE && LOW_PRE)
/* any thread state ... */
__CPROVER_requires(g_want_v >= TH_ST_UNKNOWN && g_want_v <= TH_ST_WARMING && g_lab_type == (void *) &g_types[TH_CHAN_STATE])
__CPROVER_assigns(PCF_FRAME, g_lowfail, DIAG_FRAME)
__CPROVER_ensures((RV == 0) == (g_lowfail == OLD(g_lowfail)))
__CPROVER_ensures(RV == 0 || (RV == -1 && g_err > OLD(g_err)))
/* accepted: exactly the three types that thread_connect registers are declared, in this pcf */
__CPROVER_ensures(RV != 0 || (g_addtype_n == TH_CHAN_MAX && g_t_id == TH_TYPE(g_k) && g_t_pcf == (void *) pcf))
/* ... has exactly one label, attached to the thread-state type, and nothing else is labelled */
__CPROVER_ensures(RV != 0 || (g_seen_v == 1 && g_badtype_v == 0 && g_addval_n == TH_ST_WARMING - TH_ST_UNKNOWN + 1))
;
void h_thread_create_pcf_types(void)
{
	struct pcf *pcf;
	int r = thread_create_pcf_types(pcf);
	if (r == 0 && g_want_v == TH_ST_WARMING) REACH("types declared, Warming label observed");
	if (r == 0 && g_want_v == TH_ST_UNKNOWN) REACH("types declared, Unknown label observed");
	if (r != 0) REACH("lower failure propagated");
}

struct pcf_type *c_thread_get_affinity_pcf_type(struct pcf *pcf)
__CPROVER_requires(g_ft_n == 0)
__CPROVER_assigns(g_ft_n, g_ft_id, g_ft_pcf)
/* the type that receives the CPU labels is the type of the CPU-affinity timeline of this pcf */
__CPROVER_ensures(g_ft_n == 1 && g_ft_id == PRV_THREAD_CPU && g_ft_pcf == (void *) pcf && RV == g_ft_item)
;
void h_thread_get_affinity_pcf_type(void)
{
	struct pcf *pcf;
	struct pcf_type *t = thread_get_affinity_pcf_type(pcf);
	if (t == NULL) REACH("not found");
	if (t != NULL) REACH("found");
}

#else /* UNIT_CPU */
#include "cpu.c"             /* the real /repo/src/emu/cpu.c */

/* registered rows in channel order: NRUN (0 allowed), PID, TID; th_running / th_active have no timeline */
#define CPU_TYPE(k) ((k) == 0 ? PRV_CPU_NRUN : ((k) == 1 ? PRV_CPU_PID : PRV_CPU_TID))
#define CPU_CH(k) ((k) == 0 ? CPU_CHAN_NRUN : ((k) == 1 ? CPU_CHAN_PID : CPU_CHAN_TID))
int w_init;
int c_cpu_connect(struct cpu *cpu, struct bay *bay, struct recorder *rec)
__CPROVER_requires(__CPROVER_is_fresh(cpu, sizeof(struct cpu)) && PVT_OBJ(g_pvt) && w_init == cpu->is_init)
/* DFCC havocs statics: the (non-const) tables of cpu.c are pinned to their initialisers */
__CPROVER_requires(chan_type[CPU_CHAN_NRUN] == PRV_CPU_NRUN && chan_type[CPU_CHAN_PID] == PRV_CPU_PID && chan_type[CPU_CHAN_TID] == PRV_CPU_TID &&
	chan_type[CPU_CHAN_THRUN] == -1 && chan_type[CPU_CHAN_THACT] == -1 &&
	prv_flags[CPU_CHAN_NRUN] == PRV_ZERO && prv_flags[CPU_CHAN_PID] == 0 && prv_flags[CPU_CHAN_TID] == 0 && prv_flags[CPU_CHAN_THRUN] == 0 && prv_flags[CPU_CHAN_THACT] == 0)
__CPROVER_requires(g_k >= 0 && g_k < 3 && g_breg_n == 0 && g_reg_n == 0 && g_neg_reg == 0 && g_find_n == 0 && DIAG_PRE && LOW_PRE)
__CPROVER_assigns(REG_FRAME, g_find_n, g_find_c, g_lowfail, DIAG_FRAME)
__CPROVER_ensures((RV == 0) == (cpu->is_init != 0 && g_lowfail == OLD(g_lowfail)))
__CPROVER_ensures(RV == 0 || (RV == -1 && g_err > OLD(g_err)))
/* accepted: all channels enter the bay; the three channels with a type get one row of the trace "cpu"; no negative type is registered */
__CPROVER_ensures(RV != 0 || (g_find_c == 'c' && g_breg_n == CPU_CHAN_MAX && g_reg_n == 3 && g_neg_reg == 0))
__CPROVER_ensures(RV != 0 || (g_o_row == (long) cpu->gindex && g_o_type == CPU_TYPE(g_k) && g_o_prv == (void *) &g_pvt->prv &&
	g_o_bay == (void *) bay && g_o_chan == (void *) &cpu->chan[CPU_CH(g_k)]))
/* only the count of running threads may print 0; nothing is shifted */
__CPROVER_ensures(RV != 0 || (((g_o_flags & PRV_ZERO) != 0) == (g_k == 0) && (g_o_flags & PRV_NEXT) == 0))
;
void h_cpu_connect(void)
{
	struct cpu *cpu; struct bay *bay; struct recorder *rec;
	int r = cpu_connect(cpu, bay, rec);
	if (r == 0 && g_k == 0) REACH("connected, nrunning row observed");
	if (r == 0 && g_k == 2) REACH("connected, tid row observed");
	if (r != 0 && !w_init) REACH("uninitialised CPU refused");
	if (r != 0 && w_init) REACH("lower failure propagated");
}

/* cpu_create_pcf_types: declares exactly the types cpu_connect registers in the PRV (chan_type[i] >= 0) */
int c_cpu_create_pcf_types(struct pcf *pcf)
__CPROVER_requires(chan_type[CPU_CHAN_NRUN] == PRV_CPU_NRUN && chan_type[CPU_CHAN_PID] == PRV_CPU_PID && chan_type[CPU_CHAN_TID] == PRV_CPU_TID &&
	chan_type[CPU_CHAN_THRUN] == -1 && chan_type[CPU_CHAN_THACT] == -1)
__CPROVER_requires(g_k >= 0 && g_k < 3 && g_addtype_n == 0 && g_addval_n == 0 && DIAG_PRE && LOW_PRE)
__CPROVER_assigns(PCF_FRAME, g_lowfail, DIAG_FRAME)
__CPROVER_ensures((RV == 0) == (g_lowfail == OLD(g_lowfail)))
__CPROVER_ensures(RV == 0 || (RV == -1 && g_err > OLD(g_err)))
/* accepted: three declarations in this pcf, the k-th one being the type of the k-th registered row; no values */
__CPROVER_ensures(RV != 0 || (g_addtype_n == 3 && g_t_id == CPU_TYPE(g_k) && g_t_id >= 0 && g_t_pcf == (void *) pcf && g_addval_n == 0))
;
void h_cpu_create_pcf_types(void)
{
	struct pcf *pcf;
	int r = cpu_create_pcf_types(pcf);
	if (r == 0 && g_k == 0) REACH("CPU types declared, first observed");
	if (r == 0 && g_k == 2) REACH("CPU types declared, last observed");
	if (r != 0) REACH("pcf_add_type failure propagated");
}

struct pcf_value *c_cpu_add_to_pcf_type(struct cpu *cpu, struct pcf_type *type)
__CPROVER_requires(__CPROVER_is_fresh(cpu, sizeof(struct cpu)) && g_addval_n == 0 && LOW_PRE)
/* gindex comes from init_global_indices: 0 <= gindex < ncpus <= INT_MAX */
__CPROVER_requires(cpu->gindex >= 0 && cpu->gindex < INT_MAX)
__CPROVER_assigns(PCF_FRAME, g_lowfail)
/* one label: value gindex + 1 -- what a PRV_NEXT row prints for CPU gindex -- named after the CPU */
__CPROVER_ensures(g_addval_n == 1 && g_v_value == cpu->gindex + 1 && g_v_value >= 1 && g_v_type == (void *) type && g_v_label == (void *) cpu->name)
__CPROVER_ensures((RV != NULL) == (g_lowfail == OLD(g_lowfail)))
;
void h_cpu_add_to_pcf_type(void)
{
	struct cpu *cpu; struct pcf_type *type;
	struct pcf_value *v = cpu_add_to_pcf_type(cpu, type);
	if (v != NULL) REACH("CPU labelled");
	if (v == NULL) REACH("pcf_add_value failure propagated");
}
#endif
