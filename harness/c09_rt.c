/* C09 / C10 -- relocation of a finished stream from the temporary to the final directory
 * (src/rt/ovni.c: move_thread_to_final, move_thdir_to_final, try_clean_dir) on the ghost
 * file system of c09_fs.h.  Groups built with -DC09_CRASH assert the C09 crash invariant at
 * every call into the file system (and at die()), the others the C10 no-loss invariant.
 * Both invariants are also pre- and postconditions, so they hold at every point between
 * two FS calls of a caller that uses the contract instead of the body. */
#include "c09_fs.h"
#include "ovni.c"
#include "c09_fs_post.h"

#define FID(p) ((p)[1] == 'o' ? F_OBS : (p)[1] == 'j' ? F_JSON : F_AUX)
#define OLD(x) __CPROVER_old(x)
#define RV __CPROVER_return_value
#define FS_PRE_N(n) (FS_WF && FS_QUIET_N(n) && rproc.move_to_final == 1 && INV_NOLOSS && INV_CRASH)

/* ------------------------------------------------------------------------------------------
 * move_thread_to_final(src = tmp/<file>, dst = final/<file>)                     (C09, C10)
 *  - at every call into the FS and at exit: no original is lost (complete in tmp or in final),
 *    and a finished-looking final/stream.json implies complete final/stream.obs
 *  - returns 0  <=>  no FS call failed (incl. short counts, fclose of the copy, remove)
 *  - returns 0  ==>  tmp copy gone; if tmp held the original: final copy complete (byte-exact
 *    at the arbitrary position g_pos, full length, closed successfully)
 *  - returns != 0 ==> a diagnostic was issued (err)
 *  - no other file changes state
 * Self-contained (no ghost bindings): the same contract replaces the calls in move_thdir_to_final.
 */
#define UNTOUCHED(id) (g_st[T_TMP][id] == OLD(g_st[T_TMP][id]) && g_st[T_FIN][id] == OLD(g_st[T_FIN][id]))
#define MOVED_OK(id) (OLD(g_st[T_TMP][id]) != S_COMPLETE || g_st[T_FIN][id] == S_COMPLETE)
int w_id, w_src_state, w_dst_state;
unsigned long w_len;
WITNESS(move_thread_to_final);
int c_move_thread_to_final(const char *src, const char *dst)
__CPROVER_requires(__CPROVER_is_fresh(src, PATH_BYTES) && __CPROVER_is_fresh(dst, PATH_BYTES))
__CPROVER_requires(src[0] == TAG_TMP && dst[0] == TAG_FIN && src[1] == dst[1] && src[2] == 0 && dst[2] == 0)
/* source and destination are the same-named file of the SAME thread: both paths were formed from a
 * thread directory formatted with this thread's tid */
__CPROVER_requires(PATH_MINE(src) && PATH_MINE(dst))
__CPROVER_requires(src[1] == 'o' || src[1] == 'j' || src[1] == 'a')
__CPROVER_requires(FS_PRE_N(3000000u))
/* the file to move is still the original if there was one (each file is moved at most once) */
__CPROVER_requires(!g_had[FID(src)] || g_st[T_TMP][FID(src)] == S_COMPLETE)
/* C09: finished metadata is moved only when the events are already complete in final ... */
__CPROVER_requires(src[1] != 'j' || !g_jfin[T_TMP] || g_st[T_FIN][F_OBS] == S_COMPLETE)
/* ... and events are not (re)written under a finished-looking final/stream.json */
__CPROVER_requires(src[1] != 'o' || !(g_st[T_FIN][F_JSON] >= S_MAYBE && g_jfin[T_FIN]))
__CPROVER_requires(WBIND(move_thread_to_final, w_id == FID(src) && w_src_state == g_st[T_TMP][FID(src)] \
	&& w_dst_state == g_st[T_FIN][FID(src)] && w_len == g_len[FID(src)]))
__CPROVER_assigns(FS_FRAME_FILES, DIAG_FRAME)
__CPROVER_ensures((RV == 0) == (g_fsfault == OLD(g_fsfault)))
__CPROVER_ensures(g_fsfault >= OLD(g_fsfault) && g_fsfault <= OLD(g_fsfault) + 8)
__CPROVER_ensures(g_err == OLD(g_err) + (unsigned) (RV != 0) && g_diag == OLD(g_diag) + (unsigned) (RV != 0) && g_warn == OLD(g_warn))
__CPROVER_ensures(!g_out_open && FS_WF)
__CPROVER_ensures(RV != 0 || g_st[T_TMP][FID(src)] == S_ABSENT)
__CPROVER_ensures(RV != 0 || FID(src) != F_OBS || MOVED_OK(F_OBS))
__CPROVER_ensures(RV != 0 || FID(src) != F_JSON || MOVED_OK(F_JSON))
__CPROVER_ensures(RV != 0 || FID(src) != F_AUX || MOVED_OK(F_AUX))
__CPROVER_ensures(INV_NOLOSS)
__CPROVER_ensures(INV_CRASH)
__CPROVER_ensures(FID(src) == F_OBS || UNTOUCHED(F_OBS))
__CPROVER_ensures(FID(src) == F_JSON || UNTOUCHED(F_JSON))
__CPROVER_ensures(FID(src) == F_AUX || UNTOUCHED(F_AUX))
__CPROVER_ensures(FID(src) == F_JSON || g_jfin[T_FIN] == OLD(g_jfin[T_FIN]))
__CPROVER_ensures(FID(src) != F_JSON || g_jfin[T_FIN] == g_jfin[T_TMP] \
	|| (g_jfin[T_FIN] == OLD(g_jfin[T_FIN]) && g_st[T_FIN][F_JSON] == OLD(g_st[T_FIN][F_JSON])))
__CPROVER_ensures(g_jfin[T_TMP] == OLD(g_jfin[T_TMP]))
;

void h_move_thread_to_final(void)
{
	const char *src, *dst;
	WITNESS_ON(move_thread_to_final);
	int r = move_thread_to_final(src, dst);
	int moved_orig = (r == 0 && w_src_state == S_COMPLETE);
	if (r == 0) REACH("moved");
	if (moved_orig && g_pos < w_len) REACH("moved the original, observer inside the file");
	if (moved_orig && w_len > 5000) REACH("moved an original longer than four buffers");
	if (moved_orig && w_len == 0) REACH("moved an empty file");
	if (r == 0 && w_src_state == S_PARTIAL) REACH("moved a file that was not the original");
	if (r != 0) REACH("refused");
	if (r != 0 && g_st[T_FIN][w_id] == S_COMPLETE && g_st[T_TMP][w_id] == S_COMPLETE) REACH("copied but the source could not be removed");
	if (r != 0 && g_st[T_FIN][w_id] == S_MAYBE) REACH("fclose of the copy failed");
	if (r != 0 && g_st[T_FIN][w_id] == S_PARTIAL) REACH("partial copy left in final");
	if (r != 0 && w_dst_state == S_COMPLETE && g_st[T_FIN][w_id] != S_COMPLETE) REACH("an older complete final copy was overwritten");
	if (w_id == F_JSON && g_jfin[T_TMP]) REACH("finished metadata");
}

/* ------------------------------------------------------------------------------------------
 * move_thdir_to_final(thdir = tmp, thdir_final = final)                        (C09 and C10)
 * Directory of <= 3 entries (stream.obs, stream.json, one more entry of arbitrary name:
 * a further stream.* file or a non-stream entry), returned by readdir in ANY order.
 * move_thread_to_final is used through its contract above (whose preconditions are
 * obligations at each of the two call sites).
 *  C09 (built with -DC09_CRASH): at every call into the FS the crash invariant holds:
 *      final/stream.json possibly complete and finished  ==>  final/stream.obs complete
 *  C10: at every call into the FS no original is lost; on return
 *      every original is complete in final and gone from tmp
 *      OR (a diagnostic was issued AND every original is complete in tmp or in final);
 *      no FS fault <==> no diagnostic; no FS fault ==> everything moved;
 *      final/stream.json exists (in any state) ==> final/stream.obs complete      [D10 repair]
 */
#define ALL_MOVED(id) (!g_had[id] || (g_st[T_FIN][id] == S_COMPLETE && g_st[T_TMP][id] == S_ABSENT))
#define HAD_BOUND (g_had[0] == (g_st[T_TMP][0] == S_COMPLETE) && g_had[1] == (g_st[T_TMP][1] == S_COMPLETE) \
	&& g_had[2] == (g_st[T_TMP][2] == S_COMPLETE))
#define XENTRY_WF (g_xkind >= 0 && g_xkind <= 2 && XNAME_WF \
	&& (g_xkind == 1) == (g_st[T_TMP][F_AUX] != S_ABSENT) \
	&& (g_xkind != 1 || XNAME_PREFIX) && (g_xkind != 2 || !XNAME_PREFIX))
int w_obs, w_json, w_aux, w_xkind, w_jfin;
unsigned w_err0;
WITNESS(move_thdir_to_final);
WITNESS(thread_free_site);   /* ON in the harnesses where move_thdir_to_final's contract replaces the call made by ovni_thread_free */
void c_move_thdir_to_final(const char *thdir, const char *thdir_final)
__CPROVER_requires(__CPROVER_is_fresh(thdir, PATH_BYTES) && __CPROVER_is_fresh(thdir_final, PATH_BYTES))
__CPROVER_requires(thdir[0] == TAG_TMP && thdir[1] == 0 && thdir_final[0] == TAG_FIN && thdir_final[1] == 0)
/* the relocation goes from the temporary to the final directory of the SAME thread: both strings are
 * thread directories formatted with that thread's tid (an obligation at the call site in ovni_thread_free) */
__CPROVER_requires(PATH_MINE(thdir) && PATH_MINE(thdir_final) && PATH_TID(thdir) == PATH_TID(thdir_final))
/* at the call site in ovni_thread_free: the arguments ARE the calling thread's own two directory strings */
__CPROVER_requires(WBIND(thread_free_site, thdir == rthread.thdir && thdir_final == rthread.thdir_final && g_fs_tid == rthread.tid))
__CPROVER_requires(FS_PRE_N(2000000u) && HAD_BOUND && XENTRY_WF)
/* the stream was created in tmp and all its flushed bytes are there (write(2) model) */
__CPROVER_requires(g_st[T_TMP][F_OBS] == S_COMPLETE)
/* the final thread directory is fresh: no metadata of an earlier run */
__CPROVER_requires(g_st[T_FIN][F_JSON] == S_ABSENT)
__CPROVER_requires(WBIND(move_thdir_to_final, w_obs == g_st[T_TMP][F_OBS] && w_json == g_st[T_TMP][F_JSON] \
	&& w_aux == g_st[T_TMP][F_AUX] && w_xkind == g_xkind && w_jfin == g_jfin[T_TMP] && w_err0 == g_err))
__CPROVER_assigns(FS_FRAME, DIAG_FRAME)
__CPROVER_ensures(!g_out_open)
__CPROVER_ensures(INV_NOLOSS)
__CPROVER_ensures(INV_CRASH)
__CPROVER_ensures((ALL_MOVED(F_OBS) && ALL_MOVED(F_JSON) && ALL_MOVED(F_AUX)) || g_err > OLD(g_err))
__CPROVER_ensures(g_fsfault != OLD(g_fsfault) || (ALL_MOVED(F_OBS) && ALL_MOVED(F_JSON) && ALL_MOVED(F_AUX)))
__CPROVER_ensures((g_fsfault == OLD(g_fsfault)) == (g_err == OLD(g_err)))
__CPROVER_ensures(g_st[T_FIN][F_JSON] == S_ABSENT || g_st[T_FIN][F_OBS] == S_COMPLETE)
/* the copy carries the finished mark of the original */
__CPROVER_ensures(FS_WF && g_jfin[T_TMP] == OLD(g_jfin[T_TMP]) && (g_st[T_FIN][F_JSON] == S_ABSENT || g_jfin[T_FIN] == g_jfin[T_TMP]))
;

void h_move_thdir_to_final(void)
{
	const char *thdir, *thdir_final;
	WITNESS_ON(move_thdir_to_final); WITNESS_OFF(move_thread_to_final); WITNESS_OFF(thread_free_site);
	move_thdir_to_final(thdir, thdir_final);
	REACH("move_thdir_to_final returns");
	if (g_err == w_err0 && w_json == S_COMPLETE && w_jfin && w_xkind == 1) REACH("three stream files moved, finished");
	if (g_err == w_err0 && w_xkind == 2) REACH("non-stream entry skipped");
	if (g_err == w_err0 && w_json == S_ABSENT) REACH("no metadata in tmp");
	if (g_err != w_err0 && g_st[T_FIN][F_OBS] == S_COMPLETE && g_st[T_FIN][F_JSON] == S_PARTIAL) REACH("events moved, metadata copy failed");
	if (g_err != w_err0 && g_st[T_FIN][F_OBS] == S_PARTIAL && g_st[T_FIN][F_JSON] == S_ABSENT) REACH("events copy failed, metadata left in tmp");
	if (g_err != w_err0 && g_st[T_FIN][F_OBS] == S_COMPLETE && g_st[T_TMP][F_OBS] == S_COMPLETE) REACH("events copied but not removed, metadata left in tmp");
}

/* ------------------------------------------------------------------------------------------
 * ovni_thread_free, OVNI_TMPDIR mode                                           (C09 and C10)
 * parson is the trusted key-set model (rt_parson_stub.h); the store is the stub of c09_fs.h;
 * move_thdir_to_final is used through its contract.  Assumed protocol: the thread called
 * ovni_flush() before (rthread.evlen == 0: ovni_thread_free itself never flushes), so
 * tmp/stream.obs holds every byte of the stream.  The result of close(streamfd) is ignored by
 * the code: under "bytes handed to write(2) survive" nothing is lost by that.
 *  returns normally ==>
 *     thread finished; metadata stored with ovni.finished = 1 (else it died);
 *     FINAL_COMPLETE: events + finished metadata (+ the extra stream file) complete in final,
 *                     gone from tmp
 *     OR  a diagnostic was issued AND every file is complete in tmp or in final, the
 *         finished metadata included;
 *     no FS fault ==> FINAL_COMPLETE and no diagnostic
 *  at every FS call / die(): C09 crash invariant resp. C10 no-loss invariant (events, extra file;
 *  the metadata from the moment its new version is complete in tmp).
 */
/* the directory strings as left by create_proc_dir / create_thread_dir (its postcondition THREAD_DIRS_OF):
 * process-level procdir(s); the thread directories carry the thread's own tid, the same in both trees;
 * the ghost FS models the directories of this very thread */
#define THDIR_OF(d, tag, t) ((d)[0] == (tag) && (d)[1] == 0 && PATH_THR(d) && PATH_TID(d) == (t))
#define PROCDIR_OK(d, tag) ((d)[0] == (tag) && (d)[1] == 0 && PATH_PROC(d))
#define RT_DIRS_TMP (rproc.move_to_final == 1 && PROCDIR_OK(rproc.procdir, TAG_TMP) && PROCDIR_OK(rproc.procdir_final, TAG_FIN) \
	&& THDIR_OF(rthread.thdir, TAG_TMP, rthread.tid) && THDIR_OF(rthread.thdir_final, TAG_FIN, rthread.tid) && g_fs_tid == rthread.tid)
#define RT_DIRS_DIRECT (rproc.move_to_final == 0 && PROCDIR_OK(rproc.procdir, TAG_FIN) \
	&& THDIR_OF(rthread.thdir, TAG_FIN, rthread.tid) && g_fs_tid == rthread.tid)
#define FMT_FRAME g_fmt_tid, g_fmt_n
#define PARSON_PRE ((g_keys & (K_MANDATORY | K_FINISHED)) == K_MANDATORY && g_store_failed == 0 && g_store_calls < 1000u)
#define PARSON_FRAME g_keys, g_v_finished, g_v_rank, g_v_nranks, g_parson_failed, g_died, g_store_calls, g_keys_at_store, \
	g_finished_at_store, g_store_failed
#define FINAL_COMPLETE (g_st[T_FIN][F_OBS] == S_COMPLETE && g_st[T_TMP][F_OBS] == S_ABSENT \
	&& g_st[T_FIN][F_JSON] == S_COMPLETE && g_jfin[T_FIN] && g_st[T_TMP][F_JSON] == S_ABSENT \
	&& ALL_MOVED(F_AUX))
#define COPIES_INTACT (INV_NOLOSS && g_had[F_OBS] && g_had[F_JSON] \
	&& ((g_st[T_TMP][F_JSON] == S_COMPLETE && g_jfin[T_TMP]) || (g_st[T_FIN][F_JSON] == S_COMPLETE && g_jfin[T_FIN])))
WITNESS(ovni_thread_free);
void c_ovni_thread_free_tmp(void)
__CPROVER_requires(rthread.ready && !rthread.finished && rthread.cpus == NULL && rthread.evlen == 0)
__CPROVER_requires(rthread.evbuf == NULL || __CPROVER_is_fresh(rthread.evbuf, 64))
__CPROVER_requires(RT_DIRS_TMP && PARSON_PRE)
__CPROVER_requires(FS_PRE_N(1000000u) && XENTRY_WF && g_fmt_n < 1000000u)
/* both thread directories exist (create_thread_dir) */
__CPROVER_requires(g_dir[T_TMP] == 1 && g_dir[T_FIN] == 1)
/* the stream was created in tmp and all its flushed bytes are there; the initial metadata may be in any state */
__CPROVER_requires(g_st[T_TMP][F_OBS] == S_COMPLETE && g_had[F_OBS] == 1 && g_had[F_JSON] == 0 && !g_jfin[T_TMP])
__CPROVER_requires(g_had[F_AUX] == (g_st[T_TMP][F_AUX] == S_COMPLETE))
/* the final thread directory is fresh: no metadata of an earlier run */
__CPROVER_requires(g_st[T_FIN][F_JSON] == S_ABSENT)
__CPROVER_requires(WBIND(ovni_thread_free, w_json == g_st[T_TMP][F_JSON] && w_aux == g_st[T_TMP][F_AUX] && w_xkind == g_xkind && w_err0 == g_err))
__CPROVER_assigns(FS_FRAME, DIAG_FRAME, PARSON_FRAME, FMT_FRAME, g_had, g_dir, g_fd_open, rthread.evbuf, rthread.streamfd, rthread.finished, rthread.ready)
__CPROVER_frees(rthread.evbuf)
__CPROVER_ensures(rthread.finished == 1 && rthread.ready == 0 && !g_fd_open && !g_out_open)
/* exactly one per-thread path was formatted (the metadata file), with the thread's own tid */
__CPROVER_ensures(g_fmt_n == OLD(g_fmt_n) + 1 && g_fmt_tid == rthread.tid)
__CPROVER_ensures(!g_store_failed && (g_keys_at_store & K_FINISHED) && g_finished_at_store == 1.0)
__CPROVER_ensures(FINAL_COMPLETE || (g_err > OLD(g_err) && COPIES_INTACT))
/* the clean-up targets the TEMPORARY thread directory; the final one is never removed */
__CPROVER_ensures(g_rmdir_tree == T_TMP && g_dir[T_FIN] == 1)
__CPROVER_ensures(g_fsfault != OLD(g_fsfault) || (FINAL_COMPLETE && g_err == OLD(g_err)))
__CPROVER_ensures(INV_CRASH && INV_NOLOSS)
__CPROVER_ensures(g_st[T_FIN][F_JSON] == S_ABSENT || g_st[T_FIN][F_OBS] == S_COMPLETE)
;

void h_ovni_thread_free_tmp(void)
{
	WITNESS_ON(ovni_thread_free); WITNESS_OFF(move_thdir_to_final); WITNESS_OFF(move_thread_to_final); WITNESS_ON(thread_free_site);
	ovni_thread_free();
	REACH("ovni_thread_free returns (tmpdir mode)");
	if (g_err == w_err0 && w_xkind == 1) REACH("stream moved to final with an extra stream file");
	if (g_err != w_err0 && g_st[T_FIN][F_OBS] == S_COMPLETE && g_st[T_TMP][F_JSON] == S_COMPLETE) REACH("events moved, finished metadata still in tmp");
	if (g_err != w_err0 && g_st[T_TMP][F_OBS] == S_COMPLETE && g_st[T_FIN][F_OBS] == S_PARTIAL) REACH("events copy failed, tmp intact");
	if (g_warn > 0) REACH("rmdir of the tmp thread directory failed with an unexpected errno");
	if (w_json == S_PARTIAL) REACH("initial metadata was broken, rewritten");
}

/* ------------------------------------------------------------------------------------------
 * ovni_thread_free, direct mode (no OVNI_TMPDIR)                               (C09 and C10)
 * g_total = number of stream bytes the thread has produced.  Precondition (protocol): all of
 * them were handed to write(2) (g_file_len == g_total) and the buffer is empty.
 *  - no byte is written to the stream by ovni_thread_free (g_file_len unchanged)
 *  - returns normally ==> final/stream.json complete with ovni.finished = 1, no FS fault
 *    (any failing store dies), no relocation is attempted
 *  - at every FS call inside the store / die(): finished metadata possibly on disk ==> every
 *    byte of the stream is in final/stream.obs
 */
void c_ovni_thread_free_direct(void)
__CPROVER_requires(rthread.ready && !rthread.finished && rthread.cpus == NULL && rthread.evlen == 0)
__CPROVER_requires(rthread.evbuf == NULL || __CPROVER_is_fresh(rthread.evbuf, 64))
__CPROVER_requires(RT_DIRS_DIRECT && PARSON_PRE)
__CPROVER_requires(FS_WF && FS_QUIET_N(1000000u) && FILE_PRE && g_file_len == g_total && g_fmt_n < 1000000u)
/* the initial metadata (any state) does not carry the finished mark */
__CPROVER_requires(!g_jfin[T_FIN] && g_had[F_OBS] == 0 && g_had[F_JSON] == 0 && g_had[F_AUX] == 0)
__CPROVER_requires(WBIND(ovni_thread_free, w_json == g_st[T_FIN][F_JSON] && w_err0 == g_err))
__CPROVER_assigns(FS_FRAME, DIAG_FRAME, PARSON_FRAME, FMT_FRAME, g_had, g_dir, g_fd_open, rthread.evbuf, rthread.streamfd, rthread.finished, rthread.ready)
__CPROVER_frees(rthread.evbuf)
__CPROVER_ensures(rthread.finished == 1 && rthread.ready == 0 && !g_fd_open)
__CPROVER_ensures(g_fmt_n == OLD(g_fmt_n) + 1 && g_fmt_tid == rthread.tid)
__CPROVER_ensures(!g_store_failed && (g_keys_at_store & K_FINISHED) && g_finished_at_store == 1.0)
__CPROVER_ensures(g_st[T_FIN][F_JSON] == S_COMPLETE && g_jfin[T_FIN])
__CPROVER_ensures(g_fsfault == OLD(g_fsfault) && g_err == OLD(g_err))
__CPROVER_ensures(g_file_len == OLD(g_file_len) && rthread.evlen == 0)
__CPROVER_ensures(INV_CRASH)
__CPROVER_ensures(UNTOUCHED(F_OBS) && UNTOUCHED(F_AUX) && g_st[T_TMP][F_JSON] == OLD(g_st[T_TMP][F_JSON]))
;

void h_ovni_thread_free_direct(void)
{
	WITNESS_ON(ovni_thread_free); WITNESS_OFF(move_thdir_to_final); WITNESS_OFF(move_thread_to_final); WITNESS_ON(thread_free_site);
	ovni_thread_free();
	REACH("ovni_thread_free returns (direct mode)");
	if (w_json == S_COMPLETE) REACH("initial metadata was complete, replaced by the finished one");
	if (g_keys & K_RANK) REACH("rank stored too");
}

/* write_evbuf under kill (C09): while no finished-looking metadata is visible in final, a kill
 * inside any write(2) of the short-write loop finds the crash invariant true; all bytes are
 * handed to write(2) on return (else die).  Loop contract loops/c09_write.json (= C01's). */
#define NO_FINISHED_MARK (!(C09_STATE(T_FIN, F_JSON) >= S_MAYBE && g_jfin[T_FIN]))
void c_write_evbuf(uint8_t *buf, size_t size)
__CPROVER_requires(CAP_OK && FILE_PRE && size <= g_cap && __CPROVER_is_fresh(buf, size))
__CPROVER_requires(FS_WF && !g_out_open && NO_FINISHED_MARK && INV_NOLOSS)
__CPROVER_assigns(g_file_len, g_byte, g_died)
__CPROVER_ensures(g_file_len == OLD(g_file_len) + size)
;
void h_write_evbuf(void)
{
	uint8_t *buf; size_t size;
	write_evbuf(buf, size);
	REACH("write_evbuf returns");
	if (rproc.move_to_final) REACH("tmpdir mode");
	if (!rproc.move_to_final) REACH("direct mode");
}

/* direct mode, the documented end-of-thread protocol: flush, then free.  The real flush_evbuf
 * and ovni_thread_free run inline; write_evbuf through the contract above, whose precondition
 * NO_FINISHED_MARK is an obligation at the call site: the stream is written only while the
 * finished mark cannot be on disk; conversely the store happens after the last write(2). */
static void c09_flush_then_free(void)
{
	flush_evbuf();
	ovni_thread_free();
}
unsigned long w_evlen;
WITNESS(flush_then_free);
void c_flush_then_free(void)
__CPROVER_requires(rthread.ready && !rthread.finished && rthread.cpus == NULL)
__CPROVER_requires(CAP_OK && rthread.evlen <= g_cap && __CPROVER_is_fresh(rthread.evbuf, g_cap))
__CPROVER_requires(RT_DIRS_DIRECT && PARSON_PRE)
__CPROVER_requires(FS_WF && FS_QUIET_N(1000000u) && FILE_PRE && g_total == g_file_len + rthread.evlen)
__CPROVER_requires(!g_jfin[T_FIN] && g_had[F_OBS] == 0 && g_had[F_JSON] == 0 && g_had[F_AUX] == 0)
__CPROVER_requires(WBIND(flush_then_free, w_evlen == rthread.evlen))
__CPROVER_assigns(FS_FRAME, DIAG_FRAME, PARSON_FRAME, FMT_FRAME, g_had, g_dir, g_fd_open, rthread.evbuf, rthread.streamfd, rthread.finished, rthread.ready,
	rthread.evlen, g_file_len, g_byte)
__CPROVER_frees(rthread.evbuf)
__CPROVER_ensures(rthread.finished == 1 && g_file_len == g_total && rthread.evlen == 0 && g_fmt_tid == rthread.tid)
__CPROVER_ensures(g_st[T_FIN][F_JSON] == S_COMPLETE && g_jfin[T_FIN] && INV_CRASH)
;
void h_flush_then_free(void)
{
	WITNESS_ON(flush_then_free); WITNESS_OFF(ovni_thread_free); WITNESS_ON(thread_free_site);
	c09_flush_then_free();
	REACH("flush + free returns");
	if (w_evlen > 100000) REACH("a large buffer was flushed before the free");
}

/* ------------------------------------------------------------------------------------------
 * die on failure: create_trace_stream, mkdir_thread, create_thread_dir, thread_metadata_store  (C10)
 * "returns ==> it worked" (no FS call failed, the object exists); every failing path ends in die()
 */
int w_tree, w_tid, w_pid;
WITNESS(mkdir_thread);
/* mkdir_thread(path, procdir, tid): the directory created (and returned in path) is thread.<tid> of
 * procdir: formed from the process-level directory given, in its tree, with the integer tid -- the
 * mkpath stub asserts that the path it gets carries g_fs_tid, bound here to the tid parameter */
void c_mkdir_thread(char *path, const char *procdir, int tid)
__CPROVER_requires(__CPROVER_is_fresh(path, PATH_MAX) && __CPROVER_is_fresh(procdir, PATH_BYTES))
__CPROVER_requires((procdir[0] == TAG_TMP || procdir[0] == TAG_FIN) && procdir[1] == 0 && PATH_PROC(procdir))
__CPROVER_requires(FS_WF && FS_QUIET_N(1000000u) && INV_NOLOSS && g_fs_tid == tid && g_fmt_n < 1000000u)
__CPROVER_requires(WBIND(mkdir_thread, w_tree == (procdir[0] == TAG_TMP ? T_TMP : T_FIN) && w_tid == tid))
__CPROVER_assigns(FS_FRAME, DIAG_FRAME, FMT_FRAME, g_died, g_dir, g_mkpath_failed, __CPROVER_object_upto(path, PATH_BYTES))
__CPROVER_ensures(g_fsfault == OLD(g_fsfault) && g_mkpath_failed == OLD(g_mkpath_failed))
__CPROVER_ensures(THDIR_OF(path, procdir[0], tid))
__CPROVER_ensures(g_fmt_n == OLD(g_fmt_n) + 1 && g_fmt_tid == tid)
__CPROVER_ensures(g_dir[procdir[0] == TAG_TMP ? T_TMP : T_FIN] == 1)
;
void h_mkdir_thread(void)
{
	char *path; const char *procdir; int tid;
	WITNESS_ON(mkdir_thread);
	mkdir_thread(path, procdir, tid);
	REACH("mkdir_thread returns");
	if (w_tree == T_TMP) REACH("thread directory created in tmp");
	if (w_tid == 70000 && g_fmt_tid == 70000) REACH("thread directory formatted with tid 70000");
}

/* create_thread_dir(tid): every thread directory of thread tid is thread.<tid>: the temporary/direct
 * one under procdir, the final one (OVNI_TMPDIR mode) under procdir_final, formatted with the SAME tid */
void c_create_thread_dir(int tid)
__CPROVER_requires(PROCDIR_OK(rproc.procdir, TAG_TMP) || PROCDIR_OK(rproc.procdir, TAG_FIN))
__CPROVER_requires(!rproc.move_to_final || (PROCDIR_OK(rproc.procdir_final, TAG_FIN) && rproc.procdir[0] == TAG_TMP))
__CPROVER_requires(FS_WF && FS_QUIET_N(1000000u) && INV_NOLOSS && g_fs_tid == tid && g_fmt_n < 1000000u)
__CPROVER_requires(WBIND(mkdir_thread, w_tid == tid && w_pid == rproc.pid))
__CPROVER_assigns(FS_FRAME, DIAG_FRAME, FMT_FRAME, g_died, g_dir, g_mkpath_failed, __CPROVER_object_upto(rthread.thdir, PATH_BYTES), __CPROVER_object_upto(rthread.thdir_final, PATH_BYTES))
__CPROVER_ensures(g_fsfault == OLD(g_fsfault))
__CPROVER_ensures(THDIR_OF(rthread.thdir, rproc.procdir[0], tid) && g_dir[rproc.procdir[0] == TAG_TMP ? T_TMP : T_FIN] == 1)
__CPROVER_ensures(!rproc.move_to_final || (THDIR_OF(rthread.thdir_final, TAG_FIN, tid) && g_dir[T_FIN] == 1 && g_dir[T_TMP] == 1))
/* same tid in both directories; one formatted path per directory */
__CPROVER_ensures(!rproc.move_to_final || PATH_TID(rthread.thdir) == PATH_TID(rthread.thdir_final))
__CPROVER_ensures(g_fmt_n == OLD(g_fmt_n) + 1 + (unsigned) (rproc.move_to_final != 0) && g_fmt_tid == tid)
;
void h_create_thread_dir(void)
{
	int tid;
	WITNESS_ON(mkdir_thread);
	create_thread_dir(tid);
	REACH("create_thread_dir returns");
	if (rproc.move_to_final) REACH("both thread directories created");
	if (rproc.move_to_final && w_tid != w_pid) REACH("both thread directories created, thread other than the process leader (tid != pid)");
	if (!rproc.move_to_final && w_tid != w_pid) REACH("direct mode, tid != pid");
}

/* create_trace_stream: the stream file opened is <procdir>/thread.<rthread.tid>/stream.obs (the open
 * stub asserts that the path carries g_fs_tid, bound here to rthread.tid) */
void c_create_trace_stream(void)
__CPROVER_requires(PROCDIR_OK(rproc.procdir, TAG_TMP) || PROCDIR_OK(rproc.procdir, TAG_FIN))
__CPROVER_requires(FS_WF && FS_QUIET_N(1000000u) && INV_NOLOSS && g_fs_tid == rthread.tid && g_fmt_n < 1000000u)
__CPROVER_requires(WBIND(mkdir_thread, w_tree == (rproc.procdir[0] == TAG_TMP ? T_TMP : T_FIN) && w_tid == rthread.tid && w_pid == rproc.pid))
__CPROVER_assigns(FS_FRAME, DIAG_FRAME, FMT_FRAME, g_died, g_fd_open, rthread.streamfd)
__CPROVER_ensures(g_fsfault == OLD(g_fsfault))
__CPROVER_ensures(rthread.streamfd >= 0 && g_fd_open)
__CPROVER_ensures(g_st[rproc.procdir[0] == TAG_TMP ? T_TMP : T_FIN][F_OBS] != S_ABSENT)
__CPROVER_ensures(g_fmt_n == OLD(g_fmt_n) + 1 && g_fmt_tid == rthread.tid)
;
void h_create_trace_stream(void)
{
	WITNESS_ON(mkdir_thread);
	create_trace_stream();
	REACH("create_trace_stream returns");
	if (w_tree == T_FIN) REACH("stream created in the final directory (direct mode)");
	if (w_tid != w_pid) REACH("stream created by a thread other than the process leader");
}

/* thread_metadata_store: the file stored is <procdir>/thread.<rthread.tid>/stream.json (asserted by the store stub) */
void c_thread_metadata_store(void)
__CPROVER_requires(PROCDIR_OK(rproc.procdir, TAG_TMP) || PROCDIR_OK(rproc.procdir, TAG_FIN))
__CPROVER_requires(FS_WF && FS_QUIET_N(1000000u) && INV_NOLOSS && g_store_failed == 0 && g_store_calls < 1000u)
__CPROVER_requires(g_fs_tid == rthread.tid && g_fmt_n < 1000000u)
__CPROVER_requires(WBIND(mkdir_thread, w_tree == (rproc.procdir[0] == TAG_TMP ? T_TMP : T_FIN) && w_tid == rthread.tid && w_pid == rproc.pid))
__CPROVER_assigns(FS_FRAME, DIAG_FRAME, FMT_FRAME, g_died, g_had, g_store_calls, g_store_failed, g_keys_at_store, g_finished_at_store)
__CPROVER_ensures(g_fsfault == OLD(g_fsfault) && !g_store_failed && g_store_calls == OLD(g_store_calls) + 1)
__CPROVER_ensures(g_st[rproc.procdir[0] == TAG_TMP ? T_TMP : T_FIN][F_JSON] == S_COMPLETE)
__CPROVER_ensures(g_jfin[rproc.procdir[0] == TAG_TMP ? T_TMP : T_FIN] == ((g_keys & K_FINISHED) && g_v_finished == 1.0))
__CPROVER_ensures(g_keys_at_store == g_keys)
__CPROVER_ensures(g_fmt_n == OLD(g_fmt_n) + 1 && g_fmt_tid == rthread.tid)
;
void h_thread_metadata_store(void)
{
	WITNESS_ON(mkdir_thread);
	thread_metadata_store();
	REACH("thread_metadata_store returns");
	if (w_tree == T_TMP && (g_keys & K_FINISHED)) REACH("finished metadata stored in tmp");
	if (w_tid != w_pid) REACH("metadata stored by a thread other than the process leader");
}

/* ------------------------------------------------------------------------------------------
 * ovni_thread_init(tid): EVERY per-thread path of thread tid is formed from the right process
 * directory and tid itself                                                     (C09 and C10)
 * The real create_thread_dir, mkdir_thread, create_trace_stream, thread_metadata_init,
 * thread_metadata_populate, thread_metadata_store, ovni_thread_require run inline; write_evbuf is
 * used through c_write_evbuf above (its precondition -- no finished mark visible in final -- is an
 * obligation at the call site), version_parse through a frame-only contract (plan C14 proves it).
 * The ghost FS models the directories of thread g_fs_tid == tid: mkpath / open / the store stub
 * assert that the path they get is a per-thread path carrying that integer.
 *  returns ==> rthread.tid == tid; thdir = <procdir>/thread.<tid> exists; OVNI_TMPDIR mode:
 *     thdir_final = <procdir_final>/thread.<tid> exists, SAME tid; stream.obs was created and
 *     the initial (unfinished) stream.json is complete in <procdir>/thread.<tid>; exactly
 *     3 (+1) per-thread paths were formatted; no FS call failed (else die)
 */
char *strpbrk(const char *str, const char *accept) { (void) accept; return nondet_bool() ? NULL : (char *) str; }
int cr_version_parse(const char *version, int tuple[3])
__CPROVER_requires(1)
__CPROVER_assigns(__CPROVER_object_upto(tuple, 3 * sizeof(int)), DIAG_FRAME)
__CPROVER_ensures(1)
;
WITNESS(ovni_thread_init);
void c_ovni_thread_init_paths(pid_t tid)
__CPROVER_requires(CAP_OK && FILE_PRE && g_file_len == 0 && g_total == 0)
__CPROVER_requires(!rthread.ready && g_keys == 0 && g_store_calls == 0 && g_store_failed == 0)
__CPROVER_requires(PROCDIR_OK(rproc.procdir, TAG_TMP) || PROCDIR_OK(rproc.procdir, TAG_FIN))
__CPROVER_requires(rproc.move_to_final == 0 || rproc.move_to_final == 1)
__CPROVER_requires(rproc.move_to_final ? (PROCDIR_OK(rproc.procdir_final, TAG_FIN) && rproc.procdir[0] == TAG_TMP) : rproc.procdir[0] == TAG_FIN)
__CPROVER_requires(FS_WF && FS_QUIET_N(1000000u) && INV_NOLOSS && g_fs_tid == tid && g_fmt_n < 1000000u)
/* fresh thread directories: nothing of an earlier run */
__CPROVER_requires(g_st[T_FIN][F_JSON] == S_ABSENT && g_st[T_TMP][F_JSON] == S_ABSENT && !g_jfin[T_FIN] && !g_jfin[T_TMP])
__CPROVER_requires(g_had[F_OBS] == 0 && g_had[F_JSON] == 0 && g_had[F_AUX] == 0)
__CPROVER_requires(WBIND(ovni_thread_init, w_tid == tid && w_pid == rproc.pid))
__CPROVER_assigns(rthread, g_file_len, g_byte, g_died, DIAG_FRAME, FS_FRAME, FMT_FRAME, PARSON_FRAME, g_dir, g_mkpath_failed, g_fd_open, g_had,
	g_v_version, g_v_tid, g_v_pid, g_v_appid, g_part_is_thread, g_v_loom)
__CPROVER_ensures(tid != 0 && rthread.ready == 1 && rthread.tid == tid && g_fsfault == OLD(g_fsfault))
__CPROVER_ensures(THDIR_OF(rthread.thdir, rproc.procdir[0], tid) && g_dir[rproc.move_to_final ? T_TMP : T_FIN] == 1)
__CPROVER_ensures(!rproc.move_to_final || (THDIR_OF(rthread.thdir_final, TAG_FIN, tid) && g_dir[T_FIN] == 1))
__CPROVER_ensures(g_fmt_n == OLD(g_fmt_n) + 3 + (unsigned) rproc.move_to_final && g_fmt_tid == tid)
__CPROVER_ensures(rthread.streamfd >= 0 && g_fd_open && g_st[rproc.move_to_final ? T_TMP : T_FIN][F_OBS] != S_ABSENT)
__CPROVER_ensures(g_st[rproc.move_to_final ? T_TMP : T_FIN][F_JSON] == S_COMPLETE && !g_jfin[rproc.move_to_final ? T_TMP : T_FIN])
__CPROVER_ensures(g_store_calls == 1 && !g_store_failed && (g_keys_at_store & (K_MANDATORY | K_FINISHED)) == K_MANDATORY)
/* the stream header is on disk, the buffer is empty */
__CPROVER_ensures(g_file_len == 8 && rthread.evlen == 0)
/* OVNI_TMPDIR mode: nothing is put in the final thread directory before the thread ends */
__CPROVER_ensures(!rproc.move_to_final || (g_st[T_FIN][F_OBS] == OLD(g_st[T_FIN][F_OBS]) && g_st[T_FIN][F_JSON] == S_ABSENT && g_st[T_FIN][F_AUX] == OLD(g_st[T_FIN][F_AUX])))
;
void h_ovni_thread_init_paths(void)
{
	pid_t tid;
	WITNESS_ON(ovni_thread_init); WITNESS_OFF(mkdir_thread);
	ovni_thread_init(tid);
	REACH("ovni_thread_init returns");
	if (rproc.move_to_final && w_tid != w_pid) REACH("OVNI_TMPDIR mode, thread other than the process leader (tid != pid)");
	if (!rproc.move_to_final && w_tid != w_pid) REACH("direct mode, tid != pid");
	if (w_tid == w_pid) REACH("process leader (tid == pid)");
}

/* ------------------------------------------------------------------------------------------
 * The ghost-FS STUB json_serialize_to_file_pretty (c09_fs_post.h) used by every runtime group above,
 * checked against the contract PROVED for the real parson function in harness/c09_parson.c
 * (groups parson_json_serialize_to_file_pretty / parson_json_serialize_to_file): same outcome classes
 *   JSONSuccess  <=> no failure counted;  JSONSuccess ==> COMPLETE with the finished mark of the value
 *   JSONFailure  ==> file untouched (no text / fopen failed)  OR  truncated: PARTIAL (fputs failed)
 *                    OR MAYBE (only fclose failed: a failing close IS reported)
 * and each class is reachable in the stub (REACH points), so the callers were verified against every
 * behaviour the contract allows.  The stub adds ghost bookkeeping only (g_had, g_store_calls, snapshots).
 */
#define JS_TMP (path[0] == TAG_TMP)
#define JS_ST (JS_TMP ? g_st[T_TMP][F_JSON] : g_st[T_FIN][F_JSON])
#define JS_SAME (g_st[T_TMP][F_JSON] == OLD(g_st[T_TMP][F_JSON]) && g_st[T_FIN][F_JSON] == OLD(g_st[T_FIN][F_JSON]) \
	&& g_jfin[T_TMP] == OLD(g_jfin[T_TMP]) && g_jfin[T_FIN] == OLD(g_jfin[T_FIN]))
int w_tmp, w_st0;
WITNESS(json_store_stub);
JSON_Status c_json_store_stub(const JSON_Value *v, const char *path)
__CPROVER_requires(__CPROVER_is_fresh(path, PATH_BYTES))
__CPROVER_requires(PATH_WF(path) && path[1] == 'j' && PATH_MINE(path))
__CPROVER_requires(FS_WF && FS_QUIET_N(1000000u) && !g_in_open && INV_NOLOSS && g_store_calls < 1000u)
__CPROVER_requires(WBIND(json_store_stub, w_tmp == JS_TMP && w_st0 == JS_ST))
__CPROVER_assigns(FS_FRAME_FILES, g_had, g_store_calls, g_store_failed, g_keys_at_store, g_finished_at_store)
__CPROVER_ensures(RV == JSONSuccess || RV == JSONFailure)
__CPROVER_ensures((RV == JSONSuccess) == (g_fsfault == OLD(g_fsfault)))
__CPROVER_ensures(!g_out_open && FS_WF)
__CPROVER_ensures(RV != JSONSuccess || (JS_ST == S_COMPLETE \
	&& (JS_TMP ? g_jfin[T_TMP] : g_jfin[T_FIN]) == ((g_keys & K_FINISHED) && g_v_finished == 1.0)))
__CPROVER_ensures(RV == JSONSuccess || JS_SAME || JS_ST == S_PARTIAL || JS_ST == S_MAYBE)
__CPROVER_ensures(UNTOUCHED(F_OBS) && UNTOUCHED(F_AUX))
__CPROVER_ensures(JS_TMP ? (g_st[T_FIN][F_JSON] == OLD(g_st[T_FIN][F_JSON]) && g_jfin[T_FIN] == OLD(g_jfin[T_FIN])) \
	: (g_st[T_TMP][F_JSON] == OLD(g_st[T_TMP][F_JSON]) && g_jfin[T_TMP] == OLD(g_jfin[T_TMP])))
;
void h_json_store_stub(void)
{
	const JSON_Value *v; const char *path;
	WITNESS_ON(json_store_stub);
	JSON_Status r = json_serialize_to_file_pretty(v, path);
	int st = w_tmp ? g_st[T_TMP][F_JSON] : g_st[T_FIN][F_JSON];
	if (r == JSONSuccess) REACH("stub: stored, complete");
	if (r != JSONSuccess && st == S_COMPLETE && w_st0 == S_COMPLETE) REACH("stub: no text / fopen failed, old file intact");
	if (r != JSONSuccess && st == S_PARTIAL && w_st0 == S_COMPLETE) REACH("stub: fputs failed, truncated");
	if (r != JSONSuccess && st == S_MAYBE) REACH("stub: fclose failed => JSONFailure, not known on disk");
}

/* try_clean_dir (C10: "removing temporaries"): never touches a stream file (rmdir removes only an
 * empty directory); a failure other than ENOTEMPTY / ENOENT is reported (warn), those two are
 * the expected outcomes when other threads still use the directory. */
void c_try_clean_dir(const char *dir)
__CPROVER_requires(__CPROVER_is_fresh(dir, PATH_BYTES) && (dir[0] == TAG_TMP || dir[0] == TAG_FIN) && dir[1] == 0)
/* a process-level directory (ovni_proc_fini) or this thread's directory (ovni_thread_free) */
__CPROVER_requires(PATH_PROC(dir) || PATH_MINE(dir))
__CPROVER_requires(FS_WF && FS_QUIET_N(1000000u) && INV_NOLOSS && INV_CRASH)
__CPROVER_assigns(__CPROVER_errno, g_rmdir_errno, g_rmdir_tree, g_dir, DIAG_FRAME)
__CPROVER_ensures((g_warn == OLD(g_warn) + 1) == (g_rmdir_errno != 0 && g_rmdir_errno != ENOTEMPTY && g_rmdir_errno != ENOENT))
__CPROVER_ensures(g_warn == OLD(g_warn) || g_warn == OLD(g_warn) + 1)
__CPROVER_ensures(g_err == OLD(g_err))
/* a non-empty directory stays */
__CPROVER_ensures(!OLD(g_dir[T_TMP]) || g_dir[T_TMP] || (g_st[T_TMP][F_OBS] == S_ABSENT && g_st[T_TMP][F_JSON] == S_ABSENT && g_st[T_TMP][F_AUX] == S_ABSENT))
;
void h_try_clean_dir(void)
{
	const char *dir;
	try_clean_dir(dir);
	if (g_rmdir_errno == 0) REACH("directory removed");
	if (g_rmdir_errno == ENOTEMPTY) REACH("not empty: silently kept");
	if (g_rmdir_errno == EACCES) REACH("unexpected error: warned");
}

/* mkdir_proc: returns ==> mkpath succeeded (else die).  NOTE: the snprintf result is not checked
 * here (a too long trace path is silently truncated) -- not an I/O fault, reported as a remark. */
void c_mkdir_proc(char *path, const char *tracedir, const char *loom, int pid)
__CPROVER_requires(__CPROVER_is_fresh(path, PATH_MAX) && __CPROVER_is_fresh(tracedir, 2) && __CPROVER_is_fresh(loom, 2))
__CPROVER_requires((tracedir[0] == TAG_TMP || tracedir[0] == TAG_FIN) && tracedir[1] == 0 && loom[1] == 0)
__CPROVER_requires(FS_WF && FS_QUIET_N(1000000u) && INV_NOLOSS)
__CPROVER_assigns(FS_FRAME, DIAG_FRAME, g_died, g_pdir, g_mkpath_failed, __CPROVER_object_upto(path, PATH_BYTES))
__CPROVER_ensures(g_mkpath_failed == OLD(g_mkpath_failed))
/* the directory created and returned is a process-level directory of the tree of tracedir */
__CPROVER_ensures(PROCDIR_OK(path, tracedir[0]))
__CPROVER_ensures(g_pdir[tracedir[0] == TAG_TMP ? T_TMP : T_FIN] == 1)
;
void h_mkdir_proc(void)
{
	char *path; const char *tracedir, *loom; int pid;
	mkdir_proc(path, tracedir, loom, pid);
	REACH("mkdir_proc returns");
}
