/* C06 -- mux: MUX_WF invariant and exact contracts of cb_select / cb_input / default_select /
 * mux_set_input / mux_init and of bay_enable_cb / bay_disable_cb, on the real mux.c, bay.c, chan.c */
#include "prelude.h"
#include "value.h"
_Static_assert(sizeof(struct value) == 16, "struct value has no padding");
#undef value_is_equal
#define value_is_equal(a, b) ((a)->type == (b)->type && (a)->i == (b)->i)
#include "chan.c"          /* real: chan_set, set_dirty (inlined under cb_select / cb_input) */
#include "bay.c"           /* real: bay_enable_cb, bay_disable_cb, bay_add_cb */
#include "mux.c"           /* real: the unit */
#ifdef THREAD_MODE
#include "thread.c"        /* real: thread_select_running / thread_select_active as the mux's select function */
#endif

#ifndef NIN
#define NIN 3              /* inputs allocated by the cb_select harness; cb_select has no loop over inputs */
#endif

/* ---- spec readers (struct copy, never the direct union path) ---- */
static inline int64_t spec_single_t(struct chan *c) { struct value v = c->data.value; return v.type; }
static inline int64_t spec_single_i(struct chan *c) { struct value v = c->data.value; return v.i; }
static inline int64_t spec_cur_t(struct chan *c)
{
	if (c->type == CHAN_SINGLE) return spec_single_t(c);
	if (c->data.stack.n > 0) { struct value v = c->data.stack.values[c->data.stack.n - 1]; return v.type; }
	return VALUE_NULL;
}
static inline int64_t spec_cur_i(struct chan *c)
{
	if (c->type == CHAN_SINGLE) return spec_single_i(c);
	if (c->data.stack.n > 0) { struct value v = c->data.stack.values[c->data.stack.n - 1]; return v.i; }
	return 0;
}
static inline struct value spec_cur(struct chan *c)
{
	struct value v;
	if (c->type == CHAN_SINGLE) { v = c->data.value; return v; }
	if (c->data.stack.n > 0) { v = c->data.stack.values[c->data.stack.n - 1]; return v; }
	v.type = VALUE_NULL; v.i = 0;
	return v;
}
#define CHAN_WF(c) ((c)->type == CHAN_SINGLE || ((c)->type == CHAN_STACK && (c)->data.stack.n >= 0 && (c)->data.stack.n <= MAX_CHAN_STACK))

/* ---- dirty callback of the output channel: any result (in the emulator: bay's cb_chan_is_dirty) ---- */
unsigned g_cb_calls;
int g_cb_ret;
static int
stub_dirty_cb(struct chan *chan, void *arg)
{
	(void) chan; (void) arg;
	g_cb_calls++;
	g_cb_ret = nondet_int();
	return g_cb_ret;
}
#define CB_FRAME g_cb_calls, g_cb_ret

/* =====================================================================================
 * bay_enable_cb / bay_disable_cb: the enabled flag is list membership
 * ===================================================================================== */
#define BCB sizeof(struct bay_cb)
#define HEAD(cb) ((cb)->bchan->cb[(cb)->type])
/* utlist DL list: head->prev is the tail, tail->next is NULL.
 * LIST_WITH(cb): cb is on the list, at any position of a list of any length: the cells DL_DELETE
 * touches are the head, cb's neighbours and (when cb is the tail) head->prev. */
#define LIST_WITH(cb) ( \
	(__CPROVER_pointer_equals(HEAD(cb), cb) || __CPROVER_is_fresh(HEAD(cb), BCB)) && \
	((cb)->next == NULL || __CPROVER_is_fresh((cb)->next, BCB)) && \
	(HEAD(cb) != (cb) || ( /* cb is the head: prev is the tail */ \
		((cb)->next != NULL || __CPROVER_pointer_equals((cb)->prev, cb)) && \
		((cb)->next == NULL || __CPROVER_pointer_equals((cb)->prev, (cb)->next) || __CPROVER_is_fresh((cb)->prev, BCB)))) && \
	(HEAD(cb) == (cb) || ( /* cb is not the head: it has a predecessor */ \
		(__CPROVER_pointer_equals((cb)->prev, HEAD(cb)) || __CPROVER_is_fresh((cb)->prev, BCB)) && \
		__CPROVER_pointer_equals((cb)->prev->next, cb) && \
		((cb)->next != NULL || __CPROVER_pointer_equals(HEAD(cb)->prev, cb)))) && \
	((cb)->next == NULL || __CPROVER_pointer_equals((cb)->next->prev, cb)))

struct bay_cb *g_head, *g_prev, *g_next;
int g_was_enabled;
int w_enabled, w_type, w_bdirty, w_is_head, w_has_next, w_single, w_empty;
WITNESS(bay_disable_cb);

/* TOOL LIMIT: CBMC 6.11 crashes (SIGSEGV in simplify_expr_with_value_sett::simplify_inequality) on DFCC's
 * write-set check of `bchan->cb[cb->type]->prev->next = cb` (DL_APPEND on a non-empty list: symbolic
 * array index under a two-level dereference).  bay_enable_cb therefore cannot be ENFORCED with DFCC.
 * (A DFCC contract that REPLACES the call crashes the tool in the same way when the callback pointer is
 * one of several objects.)  Its contract is written as predicates (ENABLE_PRE / ENABLE_POST / frame) and
 * proved against the real bay_enable_cb by a plain CBMC harness (groups bay_enable_cb_*: "no_dfcc":
 * precondition assumed, postcondition and frame asserted on snapshots), both phases, list of any length.
 * cb_select, which calls it, is checked the same way with the real bay_enable_cb inlined. */
#define HEADT(cb, t) ((cb)->bchan->cb[t])
#define ENABLE_PRE(cb, t) ((cb)->type == (t) && \
	((cb)->enabled != 0 || HEADT(cb, t) == NULL || HEADT(cb, t)->prev->next == NULL) && \
	(cb)->bchan->ncallbacks[t] >= 0 && (cb)->bchan->ncallbacks[t] < INT_MAX)
/* o_*: pre-state values */
#define ENABLE_POST(cb, t, o_enabled, o_head, o_tail, o_next, o_prev, o_ncb) ( \
	(cb)->enabled != 0 && \
	/* already enabled: nothing moves */ \
	((o_enabled) == 0 || ((cb)->enabled == (o_enabled) && HEADT(cb, t) == (o_head) && (cb)->next == (o_next) && \
		(cb)->prev == (o_prev) && (cb)->bchan->ncallbacks[t] == (o_ncb))) && \
	/* was disabled: now the last callback of its channel and phase (the function dies if the bay channel is dirty) */ \
	((o_enabled) != 0 || ((cb)->enabled == 1 && (cb)->bchan->is_dirty == 0 && \
		(cb)->next == NULL && HEADT(cb, t)->prev == (cb) && (cb)->bchan->ncallbacks[t] == (o_ncb) + 1 && \
		((o_head) != NULL || (HEADT(cb, t) == (cb) && (cb)->prev == (cb))) && \
		((o_head) == NULL || (HEADT(cb, t) == (o_head) && (cb)->prev == (o_tail) && (cb)->prev->next == (cb))))))

#ifdef H_BAY_ENABLE_CB
/* plain proof of the same predicates against the real function */
static void *alloc(size_t n);
static void
prove_bay_enable_cb(int type)
{
	struct bay_cb *cb = alloc(BCB);
	struct bay_chan *bc = alloc(sizeof(struct bay_chan));
	struct bay_cb *head = NULL, *tail = NULL, *second = NULL;
	cb->bchan = bc;
	bc->cb[type] = NULL;
	if (nondet_bool()) {
		/* non-empty list: head, optionally a distinct tail, optionally nodes in between (not touched) */
		head = alloc(BCB);
		bc->cb[type] = head;
		tail = head;
		if (nondet_bool()) {
			tail = alloc(BCB);
			second = nondet_bool() ? tail : alloc(BCB);
			head->next = second;
		}
		head->prev = tail;
	}
	__CPROVER_assume(ENABLE_PRE(cb, type));
	/* snapshots: everything the contract speaks about, and the cells outside the frame */
	struct bay_cb o_cb = *cb;
	struct bay_chan o_bc = *bc;
	struct bay_cb o_head, o_tail, o_second;
	if (head) o_head = *head;
	if (tail) o_tail = *tail;
	if (second) o_second = *second;
	w_enabled = cb->enabled; w_empty = (head == NULL);

	bay_enable_cb(cb);

	VASSERT(ENABLE_POST(cb, type, o_cb.enabled, o_bc.cb[type], o_head.prev, o_cb.next, o_cb.prev, o_bc.ncallbacks[type]), "bay_enable_cb postcondition");
	/* frame: only enabled/next/prev of cb, the list head and counter of this phase, old tail->next, head->prev */
	VASSERT(cb->func == o_cb.func && cb->arg == o_cb.arg && cb->bchan == o_cb.bchan && cb->type == o_cb.type, "frame: cb");
	VASSERT(bc->chan == o_bc.chan && bc->bay == o_bc.bay && bc->is_dirty == o_bc.is_dirty && bc->next == o_bc.next && bc->prev == o_bc.prev &&
		bc->cb[1 - type] == o_bc.cb[1 - type] && bc->ncallbacks[1 - type] == o_bc.ncallbacks[1 - type], "frame: bay channel");
	if (head) VASSERT(head->func == o_head.func && head->arg == o_head.arg && head->enabled == o_head.enabled &&
		head->bchan == o_head.bchan && head->type == o_head.type && (head == tail || head->next == o_head.next), "frame: head");
	if (tail) VASSERT(tail->func == o_tail.func && tail->arg == o_tail.arg && tail->enabled == o_tail.enabled &&
		tail->bchan == o_tail.bchan && tail->type == o_tail.type && (head == tail || tail->prev == o_tail.prev), "frame: tail");
	if (second && second != tail) VASSERT(second->next == o_second.next && second->prev == o_second.prev && second->enabled == o_second.enabled, "frame: inner node");
	/* the old tail now links to cb */
	if (tail && !o_cb.enabled) VASSERT(tail->next == cb, "old tail links to the new callback");

	if (!w_enabled && w_empty) REACH("enabled on an empty list");
	if (!w_enabled && head && head == tail) REACH("enabled after one other");
	if (!w_enabled && head && head != tail) REACH("enabled after several others");
	if (w_enabled) REACH("already enabled");
}
void h_bay_enable_cb_dirty(void) { prove_bay_enable_cb(BAY_CB_DIRTY); }
void h_bay_enable_cb_emit(void) { prove_bay_enable_cb(BAY_CB_EMIT); }
#endif
static void *alloc(size_t n) { void *p = malloc(n); __CPROVER_assume(p != NULL); return p; } /* allocation succeeded */

void c_bay_disable_cb(struct bay_cb *cb)
__CPROVER_requires(__CPROVER_is_fresh(cb, BCB) && (cb->type == BAY_CB_DIRTY || cb->type == BAY_CB_EMIT))
__CPROVER_requires(__CPROVER_is_fresh(cb->bchan, sizeof(struct bay_chan)))
__CPROVER_requires(cb->enabled == 0 || LIST_WITH(cb))
__CPROVER_requires(cb->bchan->ncallbacks[cb->type] >= 0 && cb->bchan->ncallbacks[cb->type] < INT_MAX)
__CPROVER_requires(g_was_enabled == cb->enabled && g_head == HEAD(cb) && g_prev == cb->prev && g_next == cb->next)
__CPROVER_requires(WBIND(bay_disable_cb, w_enabled == cb->enabled && w_type == cb->type && w_bdirty == cb->bchan->is_dirty &&
	w_is_head == (HEAD(cb) == cb) && w_has_next == (cb->next != NULL) && w_single == (cb->prev == cb)))
__CPROVER_assigns(cb->enabled, cb->bchan->cb[cb->type], cb->bchan->ncallbacks[cb->type], g_died)
__CPROVER_assigns(cb->enabled != 0 && cb->next != NULL: cb->next->prev)
__CPROVER_assigns(cb->enabled != 0 && HEAD(cb) != cb: cb->prev->next)
__CPROVER_assigns(cb->enabled != 0 && HEAD(cb) != cb && cb->next == NULL: HEAD(cb)->prev)
__CPROVER_ensures(cb->enabled == 0)
__CPROVER_ensures(g_was_enabled != 0 || HEAD(cb) == g_head)
/* was enabled: unlinked, the neighbours are joined (dies if the bay channel is dirty) */
__CPROVER_ensures(g_was_enabled == 0 || (cb->bchan->is_dirty == 0 &&
	(g_prev != cb || HEAD(cb) == NULL) &&                                             /* only element */
	cb->prev == g_prev && cb->next == g_next &&                                       /* (own links are not in the frame) */
	(g_prev == cb || g_head != cb || (HEAD(cb) == g_next && cb->next->prev == g_prev)) &&  /* was the head */
	(g_prev == cb || g_head == cb || (HEAD(cb) == g_head && cb->prev->next == g_next &&  /* inner or tail */
		(g_next == NULL || cb->next->prev == g_prev) && (g_next != NULL || HEAD(cb)->prev == g_prev)))))
;
void h_bay_disable_cb(void)
{
	struct bay_cb *cb;
	WITNESS_ON(bay_disable_cb);
	bay_disable_cb(cb);
	if (w_enabled && w_single) REACH("only element removed");
	if (w_enabled && w_is_head && w_has_next) REACH("head removed");
	if (w_enabled && !w_is_head && w_has_next) REACH("inner element removed");
	if (w_enabled && !w_is_head && !w_has_next) REACH("tail removed");
	if (!w_enabled) REACH("already disabled");
}

/* =====================================================================================
 * MUX_WF and cb_select / cb_input
 * =====================================================================================
 * Memory is built by the harness (concrete callback phase, see TOOL LIMIT above): a mux with
 * ninputs in [0,NIN] inputs; every input has its own channel, its bay channel and its DIRTY callback;
 * the callback list of each input channel also holds up to two callbacks of OTHER muxes (X, Y) before
 * and after the input's own callback.  cb_select does not loop over inputs: NIN = 3 covers old == new,
 * old != new and an uninvolved third input. */
#ifdef NINPUTS
#define NALLOC NINPUTS   /* objects are built for the existing inputs only */
#else
#define NALLOC NIN
#endif
struct mux *G_mux;
struct chan *G_sel, *G_out, *G_in[NIN];
struct bay_cb *G_cb[NIN], *G_x[NIN], *G_y[NIN];
struct bay_chan *G_bc[NIN];

#define IN(m, i) ((m)->inputs[i])
#define IN_WF(m, i) ((m)->ninputs <= (i) || ( \
	IN(m, i).index == (i) && IN(m, i).cb == G_cb[i] && IN(m, i).chan == G_in[i] && IN(m, i).output == (m)->output && \
	G_cb[i]->type == BAY_CB_DIRTY && G_cb[i]->bchan == G_bc[i] && G_cb[i]->func == cb_input && G_cb[i]->arg == &IN(m, i) && \
	G_bc[i]->chan == G_in[i] && \
	CHAN_WF(G_in[i]) && \
	/* an input whose callback is enabled, or which is flagged selected, is THE selected input */ \
	(G_cb[i]->enabled == 0 || (m)->selected == (i)) && (IN(m, i).selected == 0 || (m)->selected == (i))))
#define MUX_WF(m) ((m)->ninputs >= 0 && (m)->ninputs <= NIN && (m)->selected >= -1 && (m)->selected < (m)->ninputs && \
	(m)->output == G_out && G_out->type == CHAN_SINGLE && G_out->prop[CHAN_DIRTY_WRITE] != 0 && G_out->prop[CHAN_ALLOW_DUP] != 0 && \
	IN_WF(m, 0) && IN_WF(m, 1) && IN_WF(m, 2))
/* the input's callback is on the DIRTY callback list of its channel (list shapes of the harness) */
#define ON_LIST(i) (G_bc[i]->cb[BAY_CB_DIRTY] == G_cb[i] || G_x[i]->next == G_cb[i] || G_y[i]->next == G_cb[i])
/* exactly the selected input is enabled, flagged and listed */
#define IN_SYNC(m, i) ((m)->ninputs <= (i) || ( \
	(G_cb[i]->enabled != 0) == ((m)->selected == (i)) && (IN(m, i).selected != 0) == ((m)->selected == (i)) && \
	ON_LIST(i) == ((m)->selected == (i))))
#define MUX_SYNC_INPUTS(m) (IN_SYNC(m, 0) && IN_SYNC(m, 1) && IN_SYNC(m, 2))

#define NCB_OK(i) (NALLOC <= (i) || G_bc[i]->ncallbacks[BAY_CB_DIRTY] >= 0 && G_bc[i]->ncallbacks[BAY_CB_DIRTY] < INT_MAX - 2)
/* builds the callback list [before..., own?, after...] of input i */
static void
link3(struct bay_chan *bc, struct bay_cb *a, struct bay_cb *b, struct bay_cb *c)
{
	/* any of a, b, c may be NULL (skipped) */
	struct bay_cb *n[3]; int k = 0;
	if (a) n[k++] = a;
	if (b) n[k++] = b;
	if (c) n[k++] = c;
	if (k == 0) { bc->cb[BAY_CB_DIRTY] = NULL; return; }
	bc->cb[BAY_CB_DIRTY] = n[0];
	n[0]->prev = n[k - 1];
	n[k - 1]->next = NULL;
	if (k >= 2) { n[0]->next = n[1]; n[1]->prev = n[0]; }
	if (k == 3) { n[1]->next = n[2]; n[2]->prev = n[1]; }
}

int w_nin, w_oldsel, w_en0, w_en1, w_en2, w_outdirty, w_outcb, w_shape0, w_shape1, w_shape2, w_seltype;
int64_t w_kt, w_ki, w_deft, w_defi, w_it0;
int w_intype0;

static void
build_mux(mux_select_func_t fsel)
{
	G_mux = alloc(sizeof(struct mux));
	G_sel = alloc(sizeof(struct chan));
	G_out = alloc(sizeof(struct chan));
#ifdef NINPUTS
	int64_t n = NINPUTS;           /* one group per number of inputs 0..NIN (cheaper than a symbolic array size) */
#else
	int64_t n = nondet_long();
	__CPROVER_assume(n >= 0 && n <= NIN);
#endif
	G_mux->ninputs = n;
	G_mux->inputs = alloc(sizeof(struct mux_input) * (size_t) n);
	G_mux->output = G_out;
	G_mux->select = G_sel;
	G_mux->select_func = fsel;
	G_out->dirty_cb = nondet_bool() ? stub_dirty_cb : NULL;
	for (int i = 0; i < NALLOC; i++) {
		G_in[i] = alloc(sizeof(struct chan));
		G_bc[i] = alloc(sizeof(struct bay_chan));
		G_cb[i] = alloc(BCB);
		G_x[i] = alloc(BCB);
		G_y[i] = alloc(BCB);
		G_cb[i]->type = BAY_CB_DIRTY;      /* concrete: see TOOL LIMIT */
		G_cb[i]->bchan = G_bc[i];
		G_cb[i]->func = cb_input;
		G_bc[i]->chan = G_in[i];
		G_x[i]->next = G_x[i]->prev = G_y[i]->next = G_y[i]->prev = NULL;
		int shape = nondet_int();
		__CPROVER_assume(shape >= 0 && shape <= 3);
		struct bay_cb *own = G_cb[i]->enabled ? G_cb[i] : NULL;
		if (own == NULL) G_cb[i]->next = G_cb[i]->prev = NULL;
		link3(G_bc[i], (shape & 1) ? G_x[i] : NULL, own, (shape & 2) ? G_y[i] : NULL);
		if (i == 0) w_shape0 = shape;
		if (i == 1) w_shape1 = shape;
		if (i == 2) w_shape2 = shape;
		if (i < n) {
			G_mux->inputs[i].index = i;
			G_mux->inputs[i].cb = G_cb[i];
			G_mux->inputs[i].chan = G_in[i];
			G_mux->inputs[i].output = G_out;
			G_cb[i]->arg = &G_mux->inputs[i];
		}
	}
}

/* ---------------- cb_select with the default selector (CPU muxes: key = gindex of the running thread) ---- */
int64_t g_kt, g_ki;            /* value of the select channel */
int64_t g_it[NIN], g_ii[NIN];  /* value of each input channel */
int64_t g_ot, g_oi, g_deft, g_defi;
int g_out_dirty;

#define KEY_NONE      (g_kt == VALUE_NULL)
#ifndef THREAD_MODE
/* default selector (CPU tracks): the key is the index of the input */
#define FSEL          NULL
#define KEY_INDEX(m)  (g_kt == VALUE_INT64 && g_ki >= 0 && g_ki < (m)->ninputs)
#define KEY_BAD(m)    (!KEY_NONE && !KEY_INDEX(m))
#define NEWSEL(m)     (KEY_INDEX(m) ? g_ki : -1)
#define KEY_PRE       1
#else
/* thread tracks: the key is the thread state (select channel = the thread's state channel, which holds
 * null or value_int64(th->state)); THREAD_MODE 1: while running, 2: while running, cooling or warming */
#if THREAD_MODE == 1
#define FSEL          thread_select_running
#define IN_MODE(st)   ((st) == TH_ST_RUNNING)
#else
#define FSEL          thread_select_active
#define IN_MODE(st)   ((st) == TH_ST_RUNNING || (st) == TH_ST_COOLING || (st) == TH_ST_WARMING)
#endif
#define KEY_BAD(m)    (!KEY_NONE && !(g_kt == VALUE_INT64 && (m)->ninputs == 1))
#define NEWSEL(m)     ((g_kt == VALUE_INT64 && IN_MODE(g_ki)) ? 0 : -1)
#define KEY_PRE       (g_kt != VALUE_INT64 || (g_ki >= 0 && g_ki <= 0xffffffffLL))
#endif

/* Plain CBMC harness (no DFCC instrumentation: see TOOL LIMIT; the replaced-contract form of
 * bay_enable_cb crashes the tool as well): precondition assumed, every postcondition asserted, frame
 * asserted on snapshots.  Everything under cb_select is the real code, inlined: select_input,
 * default_select, bay_disable_cb, bay_enable_cb, chan_read, chan_set, set_dirty. */
struct snap {
	struct mux mux;
	struct mux_input in[NIN];
	struct bay_cb cb[NIN], x[NIN], y[NIN];
	struct bay_chan bc[NIN];
	int64_t lt[NIN + 2], li[NIN + 2];
	int dirty[NIN + 2], depth[NIN + 1];
	enum chan_type type[NIN + 1];
};
static void
take_snap(struct snap *s)
{
	s->mux = *G_mux;
	for (int i = 0; i < NALLOC; i++) {
		if (i < G_mux->ninputs) s->in[i] = G_mux->inputs[i];
		s->cb[i] = *G_cb[i]; s->x[i] = *G_x[i]; s->y[i] = *G_y[i]; s->bc[i] = *G_bc[i];
		s->lt[i] = G_in[i]->last_value.type; s->li[i] = G_in[i]->last_value.i; s->dirty[i] = G_in[i]->is_dirty;
		s->type[i] = G_in[i]->type; s->depth[i] = G_in[i]->data.stack.n;
	}
	s->lt[NIN] = G_sel->last_value.type; s->li[NIN] = G_sel->last_value.i; s->dirty[NIN] = G_sel->is_dirty;
	s->type[NIN] = G_sel->type; s->depth[NIN] = G_sel->data.stack.n;
	s->lt[NIN + 1] = G_out->last_value.type; s->li[NIN + 1] = G_out->last_value.i;
}
/* frame common to cb_select and cb_input: what must NOT change */
static void
check_frame(struct snap *s, int64_t involved_a, int64_t involved_b)
{
	VASSERT(G_mux->bay == s->mux.bay && G_mux->ninputs == s->mux.ninputs && G_mux->inputs == s->mux.inputs &&
		G_mux->select_func == s->mux.select_func && G_mux->select == s->mux.select && G_mux->output == s->mux.output &&
		G_mux->def.type == s->mux.def.type && G_mux->def.i == s->mux.def.i, "frame: mux configuration");
	for (int i = 0; i < NALLOC; i++) {
		/* input channels, the select channel: value, dirty bit, last value untouched */
		VASSERT(G_in[i]->is_dirty == s->dirty[i] && G_in[i]->type == s->type[i] && G_in[i]->data.stack.n == s->depth[i] &&
			G_in[i]->last_value.type == s->lt[i] && G_in[i]->last_value.i == s->li[i], "frame: input channel");
		if (i < G_mux->ninputs)
			VASSERT(IN(G_mux, i).index == s->in[i].index && IN(G_mux, i).chan == s->in[i].chan &&
				IN(G_mux, i).output == s->in[i].output && IN(G_mux, i).cb == s->in[i].cb, "frame: input configuration");
		VASSERT(G_cb[i]->func == s->cb[i].func && G_cb[i]->arg == s->cb[i].arg && G_cb[i]->bchan == s->cb[i].bchan &&
			G_cb[i]->type == s->cb[i].type, "frame: input callback configuration");
		VASSERT(G_x[i]->enabled == s->x[i].enabled && G_y[i]->enabled == s->y[i].enabled &&
			G_x[i]->func == s->x[i].func && G_y[i]->func == s->y[i].func, "frame: other callbacks stay as they are");
		VASSERT(G_bc[i]->chan == s->bc[i].chan && G_bc[i]->cb[BAY_CB_EMIT] == s->bc[i].cb[BAY_CB_EMIT] &&
			G_bc[i]->is_dirty == s->bc[i].is_dirty, "frame: bay channel");
		if (i != involved_a && i != involved_b)
			/* an input that is neither the old nor the new selection is not touched at all */
			VASSERT(G_cb[i]->enabled == s->cb[i].enabled && G_cb[i]->next == s->cb[i].next && G_cb[i]->prev == s->cb[i].prev &&
				G_bc[i]->cb[BAY_CB_DIRTY] == s->bc[i].cb[BAY_CB_DIRTY] && G_bc[i]->ncallbacks[BAY_CB_DIRTY] == s->bc[i].ncallbacks[BAY_CB_DIRTY] &&
				G_x[i]->next == s->x[i].next && G_x[i]->prev == s->x[i].prev && G_y[i]->next == s->y[i].next && G_y[i]->prev == s->y[i].prev,
				"frame: uninvolved input");
	}
	VASSERT(G_sel->type == s->type[NIN] && G_sel->data.stack.n == s->depth[NIN] && G_sel->is_dirty == s->dirty[NIN] &&
		G_sel->last_value.type == s->lt[NIN] && G_sel->last_value.i == s->li[NIN], "frame: select channel");
	VASSERT(G_out->last_value.type == s->lt[NIN + 1] && G_out->last_value.i == s->li[NIN + 1] && G_out->type == CHAN_SINGLE &&
		G_out->prop[CHAN_DIRTY_WRITE] != 0 && G_out->prop[CHAN_ALLOW_DUP] != 0, "frame: output channel configuration and last value");
}
/* the other callbacks of a channel stay linked in their order whatever happens to the input's own callback */
#define OTHERS_LINKED(i, shape) (G_mux->ninputs <= (i) || ( \
	((shape) != 0 || (!ON_LIST(i) ? G_bc[i]->cb[BAY_CB_DIRTY] == NULL : (G_bc[i]->cb[BAY_CB_DIRTY] == G_cb[i] && G_cb[i]->prev == G_cb[i]))) && \
	(!((shape) & 1) || G_bc[i]->cb[BAY_CB_DIRTY] == G_x[i]) && \
	((shape) != 3 || (G_x[i]->next == G_y[i] && G_y[i]->prev == G_x[i])) && \
	((shape) != 2 || G_bc[i]->cb[BAY_CB_DIRTY] == G_y[i])))

static void
bind_pre(void)
{
	struct value v = spec_cur(G_sel);
	g_kt = v.type; g_ki = v.i;
	for (int i = 0; i < NALLOC; i++) { v = spec_cur(G_in[i]); g_it[i] = v.type; g_ii[i] = v.i; }
	g_ot = spec_single_t(G_out); g_oi = spec_single_i(G_out); g_out_dirty = G_out->is_dirty;
	g_deft = G_mux->def.type; g_defi = G_mux->def.i; g_cb_calls = 0;
	w_nin = (int) G_mux->ninputs; w_oldsel = (int) G_mux->selected; w_kt = g_kt; w_ki = g_ki;
	w_en0 = NALLOC > 0 ? G_cb[0]->enabled : 0; w_en1 = NALLOC > 1 ? G_cb[1]->enabled : 0; w_en2 = NALLOC > 2 ? G_cb[2]->enabled : 0;
	w_outdirty = G_out->is_dirty; w_outcb = (G_out->dirty_cb != NULL); w_deft = g_deft; w_defi = g_defi;
	w_it0 = g_it[0]; w_intype0 = NALLOC > 0 ? (int) G_in[0]->type : 0;
}

#ifdef H_CB_SELECT
void h_cb_select(void)
{
	struct snap s;
	build_mux(FSEL);
	/* precondition */
	__CPROVER_assume(CHAN_WF(G_sel) && MUX_WF(G_mux) && DIAG_PRE);
	/* every toggle increments bay_chan.ncallbacks (bay_disable_cb increments too): counter below INT_MAX - 2 */
	__CPROVER_assume(NCB_OK(0) && NCB_OK(1) && NCB_OK(2));
#ifdef ALL_SINGLE
	__CPROVER_assume(G_sel->type == CHAN_SINGLE && (NALLOC <= 0 || G_in[0]->type == CHAN_SINGLE) && (NALLOC <= 1 || G_in[1]->type == CHAN_SINGLE) && (NALLOC <= 2 || G_in[2]->type == CHAN_SINGLE));
#endif
	bind_pre();
	__CPROVER_assume(KEY_PRE);
	take_snap(&s);
	unsigned err0 = g_err;

	int r = cb_select(G_sel, G_mux);

	VASSERT(r == 0 || r == -1, "cb_select returns 0 or -1");
	VASSERT((r != 0) == (KEY_BAD(G_mux) || (g_cb_calls == 1 && g_cb_ret != 0)),
		"refused exactly when the key selects nothing legal or the output channel's dirty callback failed");
	VASSERT(r == 0 || g_err > err0, "a refusal is diagnosed");
	VASSERT(G_mux->selected == NEWSEL(G_mux), "the selection follows the select channel; a bad key leaves nothing selected");
	VASSERT(MUX_SYNC_INPUTS(G_mux), "exactly the selected input has its callback enabled, is flagged, and is on its channel's callback list");
	VASSERT(MUX_WF(G_mux), "MUX_WF preserved");
	VASSERT(OTHERS_LINKED(0, w_shape0) && OTHERS_LINKED(1, w_shape1) && OTHERS_LINKED(2, w_shape2), "callbacks of other muxes stay on the lists, in order");
	VASSERT(NEWSEL(G_mux) < 0 || (G_bc[NEWSEL(G_mux)]->cb[BAY_CB_DIRTY]->prev == G_cb[NEWSEL(G_mux)] && G_cb[NEWSEL(G_mux)]->next == NULL),
		"the selected input's callback is the last of its channel");
	VASSERT(KEY_BAD(G_mux) || (G_out->is_dirty != 0 &&
		spec_single_t(G_out) == (NEWSEL(G_mux) == 0 ? g_it[0] : NEWSEL(G_mux) == 1 ? g_it[1] : NEWSEL(G_mux) == 2 ? g_it[2] : g_deft) &&
		spec_single_i(G_out) == (NEWSEL(G_mux) == 0 ? g_ii[0] : NEWSEL(G_mux) == 1 ? g_ii[1] : NEWSEL(G_mux) == 2 ? g_ii[2] : g_defi)),
		"the output shows the selected input's value, or the default when nothing is selected");
	VASSERT(!KEY_BAD(G_mux) || (spec_single_t(G_out) == g_ot && spec_single_i(G_out) == g_oi && G_out->is_dirty == g_out_dirty),
		"a bad key does not touch the output");
	VASSERT(g_cb_calls == ((!KEY_BAD(G_mux) && g_out_dirty == 0 && G_out->dirty_cb != NULL) ? 1u : 0u),
		"the output's dirty callback runs exactly once iff the output becomes dirty");
	check_frame(&s, s.mux.selected, NEWSEL(G_mux));

#if NINPUTS >= 2
	if (r == 0 && w_oldsel == 0 && w_ki == 1 && w_kt == VALUE_INT64 && w_en0) REACH("switch from input 0 to input 1");
	if (r == 0 && w_oldsel == 1 && w_ki == 1 && w_kt == VALUE_INT64 && w_en1) REACH("same input selected again");
	if (r == 0 && w_oldsel == 1 && w_ki == 0 && w_kt == VALUE_INT64 && w_shape0 == 3 && w_shape1 == 3) REACH("switch with other callbacks around both inputs");
#endif
#if NINPUTS >= 3
	if (r == 0 && w_oldsel == 2 && w_kt == VALUE_NULL && w_en2) REACH("switch from input 2 to none");
	if (r == 0 && w_oldsel == -1 && w_ki == 2 && w_kt == VALUE_INT64) REACH("switch from none to input 2");
#endif
#if NINPUTS >= 1
	if (r == 0 && w_oldsel == 0 && !w_en0 && G_mux->selected == 0) REACH("first selection after mux_init (selected == 0, nothing enabled)");
	if (r == 0 && w_oldsel == 0 && w_en0 && w_kt == VALUE_NULL) REACH("switch from input 0 to none");
	if (r == 0 && w_oldsel == -1 && G_mux->selected == 0 && w_it0 == VALUE_INT64) REACH("switch from none to input 0");
#ifndef ALL_SINGLE
	if (r == 0 && G_mux->selected == 0 && w_intype0 == CHAN_STACK && w_it0 == VALUE_INT64) REACH("stack channel selected");
#endif
#endif
#ifdef THREAD_MODE
	if (r == 0 && w_kt == VALUE_INT64 && w_ki == TH_ST_RUNNING && !w_en0) REACH("thread starts running: value shown");
	if (r == 0 && w_kt == VALUE_INT64 && w_ki == TH_ST_PAUSED && w_en0) REACH("thread pauses: value hidden");
	if (r == 0 && w_kt == VALUE_INT64 && w_ki == TH_ST_COOLING && w_en0) REACH("thread cools");
	if (r == 0 && w_kt == VALUE_INT64 && w_ki == TH_ST_WARMING && !w_en0) REACH("thread warms");
	if (r == 0 && w_kt == VALUE_INT64 && w_ki == TH_ST_DEAD && w_en0) REACH("thread dies: value hidden");
#else
	if (r != 0 && w_kt == VALUE_INT64 && w_ki == w_nin) REACH("refused: index out of range");
	if (r != 0 && w_kt == VALUE_INT64 && w_ki < 0) REACH("refused: negative index (or no inputs)");
#endif
	if (r != 0 && w_kt == VALUE_DOUBLE) REACH("refused: key is not null/int64");
	if (r != 0 && w_kt == VALUE_NULL) REACH("refused: output channel failed");
	if (r == 0 && w_kt == VALUE_NULL) REACH("null key accepted");
}
#endif /* H_CB_SELECT */

/* =====================================================================================
 * DFCC groups (no list manipulation below them): cb_input, default_select
 * ===================================================================================== */
int64_t g_in_t, g_in_i;
int w_in_type, w_hascb;
WITNESS(cb_input);
#define INP(p) ((struct mux_input *) (p))
int c_cb_input(struct chan *in_chan, void *ptr)
__CPROVER_requires(__CPROVER_is_fresh(in_chan, sizeof(struct chan)) && CHAN_WF(in_chan))
__CPROVER_requires(__CPROVER_is_fresh(ptr, sizeof(struct mux_input)))
__CPROVER_requires(__CPROVER_is_fresh(INP(ptr)->output, sizeof(struct chan)))
/* the output channel of a mux as mux_init leaves it */
__CPROVER_requires(INP(ptr)->output->type == CHAN_SINGLE && INP(ptr)->output->prop[CHAN_DIRTY_WRITE] != 0 && INP(ptr)->output->prop[CHAN_ALLOW_DUP] != 0)
__CPROVER_requires(INP(ptr)->output->dirty_cb == NULL || INP(ptr)->output->dirty_cb == stub_dirty_cb)
__CPROVER_requires(g_in_t == spec_cur_t(in_chan) && g_in_i == spec_cur_i(in_chan) && g_out_dirty == INP(ptr)->output->is_dirty && g_cb_calls == 0 && DIAG_PRE)
__CPROVER_requires(WBIND(cb_input, w_in_type == (int) in_chan->type && w_outdirty == INP(ptr)->output->is_dirty && w_hascb == (INP(ptr)->output->dirty_cb != NULL)))
__CPROVER_assigns(INP(ptr)->output->is_dirty, INP(ptr)->output->data.value, CB_FRAME, DIAG_FRAME)
__CPROVER_ensures(__CPROVER_return_value == 0 || __CPROVER_return_value == -1)
/* the output shows the input's value */
__CPROVER_ensures(spec_single_t(INP(ptr)->output) == g_in_t && spec_single_i(INP(ptr)->output) == g_in_i && INP(ptr)->output->is_dirty != 0)
/* fails only if the output channel's dirty callback failed; that callback runs once iff the output becomes dirty */
__CPROVER_ensures((__CPROVER_return_value != 0) == (g_cb_calls == 1 && g_cb_ret != 0))
__CPROVER_ensures(g_cb_calls == ((g_out_dirty == 0 && INP(ptr)->output->dirty_cb != NULL) ? 1u : 0u))
;
#ifdef H_CB_INPUT
void h_cb_input(void)
{
	struct chan *in_chan; void *ptr;
	chan_cb_t keep = stub_dirty_cb; (void) keep;
	WITNESS_ON(cb_input);
	int r = cb_input(in_chan, ptr);
	if (r == 0 && w_in_type == CHAN_SINGLE && !w_outdirty) REACH("single input forwarded, output becomes dirty");
	if (r == 0 && w_in_type == CHAN_STACK && w_outdirty) REACH("stack input forwarded to an already dirty output");
	if (r != 0) REACH("refused: dirty callback failed");
}
#endif

/* ---------------- default_select ---------------- */
int64_t w_n;
struct mux_input *g_inputs;
WITNESS(default_select);
int c_default_select(struct mux *mux, struct value key, struct mux_input **pinput)
__CPROVER_requires(__CPROVER_is_fresh(mux, sizeof(*mux)) && __CPROVER_is_fresh(pinput, sizeof(*pinput)))
__CPROVER_requires(mux->ninputs >= 0 && mux->ninputs <= (1 << 20) && __CPROVER_is_fresh(mux->inputs, sizeof(struct mux_input) * (size_t) mux->ninputs))
__CPROVER_requires(g_inputs == mux->inputs && DIAG_PRE)
__CPROVER_requires(WBIND(default_select, w_kt == key.type && w_ki == key.i && w_n == mux->ninputs))
__CPROVER_assigns(*pinput, DIAG_FRAME)
/* accepted exactly for the null key (no input) and for an int64 key that is an input index */
__CPROVER_ensures((__CPROVER_return_value == 0) == (key.type == VALUE_NULL || (key.type == VALUE_INT64 && key.i >= 0 && key.i < mux->ninputs)))
__CPROVER_ensures(__CPROVER_return_value == 0 || (__CPROVER_return_value == -1 && g_err > __CPROVER_old(g_err)))
__CPROVER_ensures(__CPROVER_return_value != 0 || key.type != VALUE_NULL || *pinput == NULL)
__CPROVER_ensures(__CPROVER_return_value != 0 || key.type != VALUE_INT64 || *pinput == &g_inputs[key.i])
;
#ifdef H_DEFAULT_SELECT
void h_default_select(void)
{
	struct mux *mux; struct value key; struct mux_input **pinput;
	WITNESS_ON(default_select);
	int r = default_select(mux, key, pinput);
	if (r == 0 && w_kt == VALUE_NULL) REACH("null key: no input");
	if (r == 0 && w_kt == VALUE_INT64 && w_ki == 70000) REACH("input 70000 of a large mux");
	if (r != 0 && w_kt == VALUE_INT64 && w_ki == w_n) REACH("refused: index == ninputs");
	if (r != 0 && w_kt == VALUE_DOUBLE) REACH("refused: double key");
}
#endif
