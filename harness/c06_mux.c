/* C06 -- mux: MUX_WF invariant and exact contracts of cb_select / cb_input / default_select /
 * mux_set_input / mux_init and of bay_enable_cb / bay_disable_cb, on the real mux.c, bay.c, chan.c */
#include "prelude.h"
#include "value.h"
_Static_assert(sizeof(struct value) == 16, "struct value has no padding");
#undef value_is_equal
#define value_is_equal(a, b) ((a)->type == (b)->type && (a)->i == (b)->i)
#include "chan.c"          /* real: chan_set, set_dirty (inlined under cb_select / cb_input) */
#include "bay.c"           /* real: bay_enable_cb, bay_disable_cb, bay_add_cb */
#include "mux.c"           /* real: the unit */

#ifndef NIN
#define NIN 3              /* inputs allocated by the cb_select harness; cb_select has no loop over inputs */
#endif

/* ---- spec readers (struct copy, never the direct union path) ---- */
static inline int64_t spec_single_t(struct chan *c) { struct value v = c->data.value; return v.type; }
static inline int64_t spec_single_i(struct chan *c) { struct value v = c->data.value; return v.i; }
static inline int64_t spec_cur_t(struct chan *c)
{
	if (c->type == CHAN_SINGLE) return spec_single_t(c);
	if (c->data.stack.n > 0) { struct value v = c->data.stack.values[c->data.stack.n - 1]; return v.type; }
	return VALUE_NULL;
}
static inline int64_t spec_cur_i(struct chan *c)
{
	if (c->type == CHAN_SINGLE) return spec_single_i(c);
	if (c->data.stack.n > 0) { struct value v = c->data.stack.values[c->data.stack.n - 1]; return v.i; }
	return 0;
}
#define CHAN_WF(c) ((c)->type == CHAN_SINGLE || ((c)->type == CHAN_STACK && (c)->data.stack.n >= 0 && (c)->data.stack.n <= MAX_CHAN_STACK))

/* ---- dirty callback of the output channel: any result (in the emulator: bay's cb_chan_is_dirty) ---- */
unsigned g_cb_calls;
int g_cb_ret;
static int
stub_dirty_cb(struct chan *chan, void *arg)
{
	(void) chan; (void) arg;
	g_cb_calls++;
	g_cb_ret = nondet_int();
	return g_cb_ret;
}
#define CB_FRAME g_cb_calls, g_cb_ret

/* =====================================================================================
 * bay_enable_cb / bay_disable_cb: the enabled flag is list membership
 * ===================================================================================== */
#define BCB sizeof(struct bay_cb)
#define HEAD(cb) ((cb)->bchan->cb[(cb)->type])
/* utlist DL list: head->prev is the tail, tail->next is NULL.
 * LIST_WITHOUT(cb): the callback list of cb's channel and phase, cb not on it: empty, or a head with
 * its tail (head itself or another node). Only these cells are touched by DL_APPEND. */
#define LIST_WITHOUT(cb) (HEAD(cb) == NULL || HEAD(cb)->prev->next == NULL)
/* LIST_WITH(cb): cb is on the list, at any position of a list of any length: the cells DL_DELETE
 * touches are the head, cb's neighbours and (when cb is the tail) head->prev. */
#define LIST_WITH(cb) ( \
	(__CPROVER_pointer_equals(HEAD(cb), cb) || __CPROVER_is_fresh(HEAD(cb), BCB)) && \
	((cb)->next == NULL || __CPROVER_is_fresh((cb)->next, BCB)) && \
	(HEAD(cb) != (cb) || ( /* cb is the head: prev is the tail */ \
		((cb)->next != NULL || __CPROVER_pointer_equals((cb)->prev, cb)) && \
		((cb)->next == NULL || __CPROVER_pointer_equals((cb)->prev, (cb)->next) || __CPROVER_is_fresh((cb)->prev, BCB)))) && \
	(HEAD(cb) == (cb) || ( /* cb is not the head: it has a predecessor */ \
		(__CPROVER_pointer_equals((cb)->prev, HEAD(cb)) || __CPROVER_is_fresh((cb)->prev, BCB)) && \
		__CPROVER_pointer_equals((cb)->prev->next, cb) && \
		((cb)->next != NULL || __CPROVER_pointer_equals(HEAD(cb)->prev, cb)))) && \
	((cb)->next == NULL || __CPROVER_pointer_equals((cb)->next->prev, cb)))

struct bay_cb *g_head, *g_prev, *g_next, *g_tail;
int g_was_enabled, g_ncb;
int w_enabled, w_type, w_bdirty, w_is_head, w_has_next, w_single, w_empty;
WITNESS(bay_enable_cb);
WITNESS(bay_disable_cb);

/* TOOL LIMIT: CBMC 6.11 crashes (SIGSEGV in simplify_expr_with_value_sett::simplify_inequality) on DFCC's
 * write-set check of `bchan->cb[cb->type]->prev->next = cb` (DL_APPEND on a non-empty list: symbolic
 * array index under a two-level dereference).  bay_enable_cb therefore cannot be ENFORCED with DFCC.
 * Its contract is written once as predicates (ENABLE_PRE / ENABLE_POST / frame) and
 *  - proved against the real bay_enable_cb by a plain CBMC harness (groups bay_enable_cb_*: "no_dfcc":
 *    precondition assumed, postcondition and frame asserted on snapshots), both phases, list of any length;
 *  - used as the DFCC contract cr_bay_enable_cb that REPLACES the call inside cb_select. */
#define HEADT(cb, t) ((cb)->bchan->cb[t])
#define ENABLE_PRE(cb, t) ((cb)->type == (t) && \
	((cb)->enabled != 0 || HEADT(cb, t) == NULL || HEADT(cb, t)->prev->next == NULL) && \
	(cb)->bchan->ncallbacks[t] >= 0 && (cb)->bchan->ncallbacks[t] < INT_MAX)
/* o_*: pre-state values */
#define ENABLE_POST(cb, t, o_enabled, o_head, o_tail, o_next, o_prev, o_ncb) ( \
	(cb)->enabled != 0 && \
	/* already enabled: nothing moves */ \
	((o_enabled) == 0 || ((cb)->enabled == (o_enabled) && HEADT(cb, t) == (o_head) && (cb)->next == (o_next) && \
		(cb)->prev == (o_prev) && (cb)->bchan->ncallbacks[t] == (o_ncb))) && \
	/* was disabled: now the last callback of its channel and phase (the function dies if the bay channel is dirty) */ \
	((o_enabled) != 0 || ((cb)->enabled == 1 && (cb)->bchan->is_dirty == 0 && \
		(cb)->next == NULL && HEADT(cb, t)->prev == (cb) && (cb)->bchan->ncallbacks[t] == (o_ncb) + 1 && \
		((o_head) != NULL || (HEADT(cb, t) == (cb) && (cb)->prev == (cb))) && \
		((o_head) == NULL || (HEADT(cb, t) == (o_head) && (cb)->prev == (o_tail) && (cb)->prev->next == (cb))))))

/* DFCC form, phase DIRTY (the phase of every mux callback): used for replacement in cb_select */
void cr_bay_enable_cb(struct bay_cb *cb)
__CPROVER_requires(ENABLE_PRE(cb, BAY_CB_DIRTY))
__CPROVER_assigns(cb->enabled, cb->next, cb->prev, cb->bchan->cb[BAY_CB_DIRTY], cb->bchan->ncallbacks[BAY_CB_DIRTY])
__CPROVER_assigns(cb->enabled == 0 && HEADT(cb, BAY_CB_DIRTY) != NULL: HEADT(cb, BAY_CB_DIRTY)->prev, HEADT(cb, BAY_CB_DIRTY)->prev->next)
__CPROVER_ensures(ENABLE_POST(cb, BAY_CB_DIRTY, __CPROVER_old(cb->enabled), __CPROVER_old(cb->bchan->cb[BAY_CB_DIRTY]),
	__CPROVER_old(cb->bchan->cb[BAY_CB_DIRTY]->prev), __CPROVER_old(cb->next), __CPROVER_old(cb->prev),
	__CPROVER_old(cb->bchan->ncallbacks[BAY_CB_DIRTY])))
;

/* plain proof of the same predicates against the real function */
static void *alloc(size_t n) { void *p = malloc(n); __CPROVER_assume(p != NULL); return p; } /* allocation succeeded */
static void
prove_bay_enable_cb(int type)
{
	struct bay_cb *cb = alloc(BCB);
	struct bay_chan *bc = alloc(sizeof(struct bay_chan));
	struct bay_cb *head = NULL, *tail = NULL, *second = NULL;
	cb->bchan = bc;
	bc->cb[type] = NULL;
	if (nondet_bool()) {
		/* non-empty list: head, optionally a distinct tail, optionally nodes in between (not touched) */
		head = alloc(BCB);
		bc->cb[type] = head;
		tail = head;
		if (nondet_bool()) {
			tail = alloc(BCB);
			second = nondet_bool() ? tail : alloc(BCB);
			head->next = second;
		}
		head->prev = tail;
	}
	__CPROVER_assume(ENABLE_PRE(cb, type));
	/* snapshots: everything the contract speaks about, and the cells outside the frame */
	struct bay_cb o_cb = *cb;
	struct bay_chan o_bc = *bc;
	struct bay_cb o_head, o_tail, o_second;
	if (head) o_head = *head;
	if (tail) o_tail = *tail;
	if (second) o_second = *second;
	w_enabled = cb->enabled; w_empty = (head == NULL);

	bay_enable_cb(cb);

	VASSERT(ENABLE_POST(cb, type, o_cb.enabled, o_bc.cb[type], o_head.prev, o_cb.next, o_cb.prev, o_bc.ncallbacks[type]), "bay_enable_cb postcondition");
	/* frame: only enabled/next/prev of cb, the list head and counter of this phase, old tail->next, head->prev */
	VASSERT(cb->func == o_cb.func && cb->arg == o_cb.arg && cb->bchan == o_cb.bchan && cb->type == o_cb.type, "frame: cb");
	VASSERT(bc->chan == o_bc.chan && bc->bay == o_bc.bay && bc->is_dirty == o_bc.is_dirty && bc->next == o_bc.next && bc->prev == o_bc.prev &&
		bc->cb[1 - type] == o_bc.cb[1 - type] && bc->ncallbacks[1 - type] == o_bc.ncallbacks[1 - type], "frame: bay channel");
	if (head) VASSERT(head->func == o_head.func && head->arg == o_head.arg && head->enabled == o_head.enabled &&
		head->bchan == o_head.bchan && head->type == o_head.type && (head == tail || head->next == o_head.next), "frame: head");
	if (tail) VASSERT(tail->func == o_tail.func && tail->arg == o_tail.arg && tail->enabled == o_tail.enabled &&
		tail->bchan == o_tail.bchan && tail->type == o_tail.type && (head == tail || tail->prev == o_tail.prev), "frame: tail");
	if (second && second != tail) VASSERT(second->next == o_second.next && second->prev == o_second.prev && second->enabled == o_second.enabled, "frame: inner node");
	/* the old tail now links to cb */
	if (tail && !o_cb.enabled) VASSERT(tail->next == cb, "old tail links to the new callback");

	if (!w_enabled && w_empty) REACH("enabled on an empty list");
	if (!w_enabled && head && head == tail) REACH("enabled after one other");
	if (!w_enabled && head && head != tail) REACH("enabled after several others");
	if (w_enabled) REACH("already enabled");
}
void h_bay_enable_cb_dirty(void) { prove_bay_enable_cb(BAY_CB_DIRTY); }
void h_bay_enable_cb_emit(void) { prove_bay_enable_cb(BAY_CB_EMIT); }

void c_bay_disable_cb(struct bay_cb *cb)
__CPROVER_requires(__CPROVER_is_fresh(cb, BCB) && (cb->type == BAY_CB_DIRTY || cb->type == BAY_CB_EMIT))
__CPROVER_requires(__CPROVER_is_fresh(cb->bchan, sizeof(struct bay_chan)))
__CPROVER_requires(cb->enabled == 0 || LIST_WITH(cb))
__CPROVER_requires(cb->bchan->ncallbacks[cb->type] >= 0 && cb->bchan->ncallbacks[cb->type] < INT_MAX)
__CPROVER_requires(g_was_enabled == cb->enabled && g_head == HEAD(cb) && g_prev == cb->prev && g_next == cb->next)
__CPROVER_requires(WBIND(bay_disable_cb, w_enabled == cb->enabled && w_type == cb->type && w_bdirty == cb->bchan->is_dirty &&
	w_is_head == (HEAD(cb) == cb) && w_has_next == (cb->next != NULL) && w_single == (cb->prev == cb)))
__CPROVER_assigns(cb->enabled, cb->bchan->cb[cb->type], cb->bchan->ncallbacks[cb->type], g_died)
__CPROVER_assigns(cb->enabled != 0 && cb->next != NULL: cb->next->prev)
__CPROVER_assigns(cb->enabled != 0 && HEAD(cb) != cb: cb->prev->next)
__CPROVER_assigns(cb->enabled != 0 && HEAD(cb) != cb && cb->next == NULL: HEAD(cb)->prev)
__CPROVER_ensures(cb->enabled == 0)
__CPROVER_ensures(g_was_enabled != 0 || HEAD(cb) == g_head)
/* was enabled: unlinked, the neighbours are joined (dies if the bay channel is dirty) */
__CPROVER_ensures(g_was_enabled == 0 || (cb->bchan->is_dirty == 0 &&
	(g_prev != cb || HEAD(cb) == NULL) &&                                             /* only element */
	cb->prev == g_prev && cb->next == g_next &&                                       /* (own links are not in the frame) */
	(g_prev == cb || g_head != cb || (HEAD(cb) == g_next && cb->next->prev == g_prev)) &&  /* was the head */
	(g_prev == cb || g_head == cb || (HEAD(cb) == g_head && cb->prev->next == g_next &&  /* inner or tail */
		(g_next == NULL || cb->next->prev == g_prev) && (g_next != NULL || HEAD(cb)->prev == g_prev)))))
;
void h_bay_disable_cb(void)
{
	struct bay_cb *cb;
	WITNESS_ON(bay_disable_cb);
	bay_disable_cb(cb);
	if (w_enabled && w_single) REACH("only element removed");
	if (w_enabled && w_is_head && w_has_next) REACH("head removed");
	if (w_enabled && !w_is_head && w_has_next) REACH("inner element removed");
	if (w_enabled && !w_is_head && !w_has_next) REACH("tail removed");
	if (!w_enabled) REACH("already disabled");
}
