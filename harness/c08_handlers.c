/* C08 -- the per-model event handlers (logic around the tables): thread-state
 * precondition, dispatch, and "performs exactly the (channel, action, value) of
 * its row, else -1", on the real src/emu/<model>/event.c.
 *
 * One model per build (-DC08_<MODEL>).  The channel layer (chan.c, another unit,
 * verified by the chan_* groups of harness/c08_chan.c) is replaced by the most
 * general stub: it records the operation in a ghost log and answers with an
 * arbitrary int (g_chan_ret).  CBMC cannot carry the 786 KB tables with a
 * symbolic index (pitfall 11), so every call uses a CONCRETE event; the complete
 * table contents are discharged by native/c08_tables.c. */
#include "prelude.h"
#include "value.h"
_Static_assert(sizeof(struct value) == 16, "struct value has padding");
#include "chan.h"

/* ---------------- ghost operation log (channel layer stub) ---------------- */
enum { ACT_NONE = 0, ACT_PUSH = 1, ACT_POP = 2, ACT_SET = 3, ACT_IGN = 4, ACT_REFUSE = 5 };
int g_nops;                 /* number of channel operations performed */
int g_op;                   /* the (last) operation */
struct chan *g_opchan;      /* on which channel */
int64_t g_opval_t, g_opval_i;
int g_chan_ret;             /* answer of the channel layer: arbitrary ghost input */
static int log_op(int op, struct chan *c, struct value v)
{
	if (g_nops < 1000) g_nops++;
	g_op = op; g_opchan = c; g_opval_t = v.type; g_opval_i = v.i;
	return g_chan_ret;
}
int chan_push(struct chan *c, struct value v) { return log_op(ACT_PUSH, c, v); }
int chan_pop(struct chan *c, struct value v) { return log_op(ACT_POP, c, v); }
int chan_set(struct chan *c, struct value v) { return log_op(ACT_SET, c, v); }
#define LOG_FRAME g_nops, g_op, g_opchan, g_opval_t, g_opval_i

/* ---------------- the real unit ---------------- */
#include "extend.c"           /* the real extend_get / extend_set */
#if defined(C08_NOSV)
#  include "nosv/event.c"
#  define MID 'V'
#  define MODEL_EVENT model_nosv_event
#  define THREAD_T struct nosv_thread
#  define STATE_OK(t) ((t)->is_active && !(t)->is_out_of_cpu)
#elif defined(C08_NANOS6)
#  include "nanos6/event.c"
#  define MID '6'
#  define MODEL_EVENT model_nanos6_event
#  define THREAD_T struct nanos6_thread
#  define STATE_OK(t) ((t)->is_active)
#elif defined(C08_NODES)
#  include "nodes/event.c"
#  define MID 'D'
#  define MODEL_EVENT model_nodes_event
#  define THREAD_T struct nodes_thread
#  define STATE_OK(t) ((t)->is_running)
#elif defined(C08_MPI)
#  include "mpi/event.c"
#  define MID 'M'
#  define MODEL_EVENT model_mpi_event
#  define THREAD_T struct mpi_thread
#  define STATE_OK(t) ((t)->is_running)
#elif defined(C08_TAMPI)
#  include "tampi/event.c"
#  define MID 'T'
#  define MODEL_EVENT model_tampi_event
#  define THREAD_T struct tampi_thread
#  define STATE_OK(t) ((t)->is_running)
#elif defined(C08_OPENMP)
#  include "openmp/event.c"
#  define MID 'P'
#  define MODEL_EVENT model_openmp_event
#  define THREAD_T struct openmp_thread
#  define STATE_OK(t) ((t)->is_running)
#elif defined(C08_KERNEL)
#  include "kernel/event.c"
#  define MID 'K'
#  define MODEL_EVENT model_kernel_event
#  define THREAD_T struct kernel_thread
#  define STATE_OK(t) (1)
#elif defined(C08_OVNI)
#  include "ovni/event.c"
#  define MID 'O'
#  define MODEL_EVENT model_ovni_event
#  define THREAD_T struct ovni_thread
#  define STATE_OK(t) (!(t)->is_out_of_cpu)
#else
#  error "define C08_<MODEL>"
#endif

/* ---------------- contract of model_<m>_event for one expected row ---------------- */
/* the row the documentation gives for the event under test (set by the harness) */
int g_exp_act, g_exp_ch, g_exp_null;
int64_t g_exp_val;
int g_state_ok;             /* the model's thread-state requirement holds in the pre-state */
int g_ooc_pre;              /* thread->is_out_of_cpu in the pre-state */
struct chan *g_chans;       /* the thread's channel array of this model */
int64_t g_dclock;

#define MTH(emu) ((THREAD_T *) (emu)->thread->ext.ctx[MID])
#define EMU_SHAPE(emu) ((emu) != NULL && __CPROVER_rw_ok((emu), sizeof(struct emu)) && \
	(emu)->ev != NULL && __CPROVER_rw_ok((emu)->ev, sizeof(struct emu_ev)) && \
	(emu)->thread != NULL && __CPROVER_rw_ok((emu)->thread, sizeof(struct thread)) && \
	MTH(emu) != NULL && __CPROVER_rw_ok(MTH(emu), sizeof(THREAD_T)) && \
	MTH(emu)->m.ch != NULL && g_chans == MTH(emu)->m.ch)

WITNESS(model_event);
int w_m, w_c, w_v, w_active, w_running, w_ooc;

#if defined(C08_KERNEL)
#  define EXTRA_FRAME , emu->thread->is_out_of_cpu
#elif defined(C08_OVNI)
#  define EXTRA_FRAME , MTH(emu)->flush_start
#  define CLOCK_RANGE(x) ((x) > -(1L << 62) && (x) < (1L << 62))
#else
#  define EXTRA_FRAME
#endif

/* The postcondition, written once: RET is the result, ERRPRE the error counter
 * before the call.  Used as `ensures` of the contract (DFCC groups contract_*)
 * and as assertions after each concrete call (groups handler_*, several events
 * per run: DFCC allows a single call of the function under contract). */
#define POST_RANGE(RET) ((RET) == 0 || (RET) == -1)
/* the thread is not in the state the model requires, or the event has no row:
 * refused with a diagnostic and WITHOUT touching any channel */
#define POST_REFUSED(RET, ERRPRE) ((g_state_ok && g_exp_act != ACT_REFUSE) || \
	((RET) == -1 && g_nops == 0 && g_err > (ERRPRE)))
/* a row that is deliberately ignored */
#define POST_IGNORED(RET) (!(g_state_ok && g_exp_act == ACT_IGN) || ((RET) == 0 && g_nops == 0))
/* exactly the (channel, action, value) of the row; the answer of the channel layer is passed on */
#define POST_ROW(RET) (!(g_state_ok && (g_exp_act == ACT_PUSH || g_exp_act == ACT_POP || g_exp_act == ACT_SET)) || ( \
	g_nops == 1 && g_op == g_exp_act && g_opchan == &g_chans[g_exp_ch] && \
	g_opval_t == (g_exp_null ? VALUE_NULL : VALUE_INT64) && g_opval_i == g_exp_val && \
	((RET) == 0) == (g_chan_ret == 0)))
#if defined(C08_KERNEL)
/* kernel: the out-of-CPU flag follows the event (set before the channel is asked), untouched otherwise */
#  define POST_MODEL(emu, RET) ((emu)->thread->is_out_of_cpu == \
	(g_exp_act == ACT_PUSH ? 1 : g_exp_act == ACT_POP ? 0 : g_ooc_pre))
#elif defined(C08_OVNI)
#  define POST_MODEL(emu, RET) (!(g_state_ok && g_exp_act == ACT_SET && !g_exp_null && (RET) == 0) || \
	MTH(emu)->flush_start == g_dclock)
#else
#  define POST_MODEL(emu, RET) (1)
#endif

int c_model_event(struct emu *emu)
__CPROVER_requires(EMU_SHAPE(emu) && DIAG_PRE && g_nops == 0)
__CPROVER_requires(WBIND(model_event, w_m == emu->ev->m && w_c == emu->ev->c && w_v == emu->ev->v &&
	w_active == emu->thread->is_active && w_running == emu->thread->is_running && w_ooc == emu->thread->is_out_of_cpu))
__CPROVER_requires(g_state_ok == (STATE_OK(emu->thread) != 0) && g_ooc_pre == emu->thread->is_out_of_cpu)
#if defined(C08_OVNI)
/* ASSUMPTION (plan.assumptions): event clocks are within +-2^62 ns */
__CPROVER_requires(g_dclock == emu->ev->dclock && CLOCK_RANGE(emu->ev->dclock) && CLOCK_RANGE(MTH(emu)->flush_start))
#endif
/* write frame: the ghost log and diagnostics; kernel: the out-of-CPU flag; ovni: flush_start */
__CPROVER_assigns(LOG_FRAME, DIAG_FRAME EXTRA_FRAME)
__CPROVER_ensures(POST_RANGE(__CPROVER_return_value))
__CPROVER_ensures(POST_REFUSED(__CPROVER_return_value, __CPROVER_old(g_err)))
__CPROVER_ensures(POST_IGNORED(__CPROVER_return_value))
__CPROVER_ensures(POST_ROW(__CPROVER_return_value))
__CPROVER_ensures(POST_MODEL(emu, __CPROVER_return_value))
;

/* ---------------- harness ---------------- */
long nondet_long(void);
/* The objects are LOCALS of the harness (typed, arbitrary content, constant
 * addresses).  With malloc (which may return NULL in CBMC 6) every dereference
 * of emu->ev->c becomes `emu == &obj ? obj.c : invalid.c`, the table index is no
 * longer a constant and the 786 KB table is bit-blasted (measured: 62 M
 * clauses / out of memory; with locals 0.2 s). */
#define MK_EMU \
	struct emu emu_s; struct emu_ev ev_s; struct thread th_s; THREAD_T mth_s; struct chan chs_s[CH_MAX]; \
	struct emu *emu = &emu_s; \
	emu_s.ev = &ev_s; emu_s.thread = &th_s; th_s.ext.ctx[MID] = &mth_s; mth_s.m.ch = chs_s; g_chans = chs_s
/* a concrete event, arbitrary thread flags */
static void set_event(struct emu *emu, uint8_t m, uint8_t c, uint8_t v)
{
	struct emu_ev *ev = (struct emu_ev *) emu->ev;
	ev->m = m; ev->c = c; ev->v = v; ev->nil = 0;
	emu->thread->is_active = nondet_int();
	emu->thread->is_running = nondet_int();
	emu->thread->is_out_of_cpu = nondet_int();
	g_chan_ret = nondet_int();   /* the channel layer may answer anything */
}

/* names the pre-state in ghosts by ASSIGNMENT (the requires clauses restate the
 * same equalities, so the contract stays self-contained) */
unsigned g_err_pre;
int g_pre_active, g_pre_running;
static void bind_pre(struct emu *emu)
{
	g_state_ok = (STATE_OK(emu->thread) != 0);
	g_ooc_pre = emu->thread->is_out_of_cpu;
	g_pre_active = emu->thread->is_active; g_pre_running = emu->thread->is_running;
	g_dclock = emu->ev->dclock;
	w_m = emu->ev->m; w_c = emu->ev->c; w_v = emu->ev->v;
	w_active = emu->thread->is_active; w_running = emu->thread->is_running; w_ooc = emu->thread->is_out_of_cpu;
	g_nops = 0;
	g_err_pre = g_err;
}
#define EXPECT(ACT, CH, VAL, ISNULL) do { g_exp_act = (ACT); g_exp_ch = (CH); g_exp_val = (VAL); g_exp_null = (ISNULL); bind_pre(emu); } while (0)

/* the postcondition as assertions + the part of the frame a handler could
 * plausibly touch: the event and the thread flags */
#if defined(C08_KERNEL)
#  define FLAGS_KEPT(emu) ((emu)->thread->is_active == g_pre_active && (emu)->thread->is_running == g_pre_running)
#else
#  define FLAGS_KEPT(emu) ((emu)->thread->is_active == g_pre_active && (emu)->thread->is_running == g_pre_running && \
	(emu)->thread->is_out_of_cpu == g_ooc_pre)
#endif
#define CHECK_POST(emu, r, M, C, V, NAME) do { \
	VASSERT(POST_RANGE(r), NAME ": returns 0 or -1"); \
	VASSERT(POST_REFUSED(r, g_err_pre), NAME ": wrong thread state or no such event => -1, diagnostic, no channel touched"); \
	VASSERT(POST_IGNORED(r), NAME ": ignored row => 0, no channel touched"); \
	VASSERT(POST_ROW(r), NAME ": exactly the (channel, action, value) of the row; channel layer's answer passed on"); \
	VASSERT(POST_MODEL(emu, r), NAME ": model-specific effect"); \
	VASSERT(FLAGS_KEPT(emu) && (emu)->ev->m == (M) && (emu)->ev->c == (C) && (emu)->ev->v == (V), NAME ": thread flags and event unchanged"); \
} while (0)

#if defined(C08_OVNI)
#  define CLOCKS_OK(emu) (CLOCK_RANGE((emu)->ev->dclock) && CLOCK_RANGE(MTH(emu)->flush_start))
#else
#  define CLOCKS_OK(emu) (1)
#endif
#define RUN(M, C, V, ACT, CH, VAL, ISNULL) \
	set_event(emu, (M), (C), (V)); \
	if (!CLOCKS_OK(emu) || !DIAG_PRE) return;   /* plan.assumptions: clocks within +-2^62 ns */ \
	EXPECT(ACT, CH, VAL, ISNULL); \
	int r = MODEL_EVENT(emu)
/* an event whose row performs one channel operation (every REACH costs one
 * solver call: the three outcomes are shown reachable on the first event of
 * each model, the others show the accepted outcome) */
#define CASE_OP_FULL(M, C, V, ACT, CH, VAL, ISNULL, NAME) do { \
	RUN(M, C, V, ACT, CH, VAL, ISNULL); \
	CHECK_POST(emu, r, M, C, V, NAME); \
	if (r == 0) REACH(NAME " accepted"); \
	if (r != 0 && g_state_ok) REACH(NAME " refused by the channel layer"); \
	if (r != 0 && !g_state_ok) REACH(NAME " refused: thread not in the required state"); \
} while (0)
#define CASE_OP(M, C, V, ACT, CH, VAL, ISNULL, NAME) do { \
	RUN(M, C, V, ACT, CH, VAL, ISNULL); \
	CHECK_POST(emu, r, M, C, V, NAME); \
	if (r == 0) REACH(NAME " accepted"); \
} while (0)
#define CASE_OP_NOSTATE(M, C, V, ACT, CH, VAL, ISNULL, NAME) do { \
	RUN(M, C, V, ACT, CH, VAL, ISNULL); \
	CHECK_POST(emu, r, M, C, V, NAME); \
	if (r == 0) REACH(NAME " accepted"); \
	if (r != 0) REACH(NAME " refused by the channel layer"); \
} while (0)
#define CASE_IGN(M, C, V, NAME) do { \
	RUN(M, C, V, ACT_IGN, 0, 0, 0); \
	CHECK_POST(emu, r, M, C, V, NAME); \
	if (r == 0) REACH(NAME " accepted and ignored"); \
} while (0)
#define CASE_REFUSE(M, C, V, NAME) do { \
	RUN(M, C, V, ACT_REFUSE, 0, 0, 0); \
	CHECK_POST(emu, r, M, C, V, NAME); \
	if (r != 0 && g_state_ok) REACH(NAME " refused: no such event"); \
} while (0)

/* groups contract_<model>: the contract c_model_event enforced by DFCC (write
 * frame included) on ONE call, the model's first enter event */
void h_contract(void)
{
	WITNESS_ON(model_event);
	MK_EMU;
#if defined(C08_NOSV)
	RUN('V', 'A', 'r', ACT_PUSH, CH_SUBSYSTEM, ST_API_CREATE, 0);
#elif defined(C08_NANOS6)
	RUN('6', 'W', '[', ACT_PUSH, CH_SUBSYSTEM, ST_WORKER_LOOP, 0);
#elif defined(C08_NODES)
	RUN('D', 'R', '[', ACT_PUSH, CH_SUBSYSTEM, ST_REGISTER, 0);
#elif defined(C08_MPI)
	RUN('M', 'W', '[', ACT_PUSH, CH_FUNCTION, ST_MPI_WAIT, 0);
#elif defined(C08_TAMPI)
	RUN('T', 'C', 'i', ACT_PUSH, CH_SUBSYSTEM, ST_COMM_ISSUE_NONBLOCKING, 0);
#elif defined(C08_OPENMP)
	RUN('P', 'B', 'b', ACT_PUSH, CH_SUBSYSTEM, ST_BARRIER_PLAIN, 0);
#elif defined(C08_KERNEL)
	RUN('K', 'C', 'O', ACT_PUSH, CH_CS, ST_CSOUT, 0);
#elif defined(C08_OVNI)
	RUN('O', 'F', '[', ACT_SET, CH_FLUSH, 1, 0);
#endif
	if (r == 0) REACH("enter event accepted");
	if (r != 0 && g_state_ok) REACH("enter event refused by the channel layer");
#if !defined(C08_KERNEL)
	if (r != 0 && !g_state_ok) REACH("enter event refused: thread not in the required state");
#endif
}

/* groups handler_<model>: the same postcondition asserted after each of a set
 * of concrete events (plain assertions, no DFCC instrumentation) */
void h_model_event(void)
{
	MK_EMU;
#if defined(C08_NOSV)
	CASE_OP_FULL('V', 'S', 'h', ACT_PUSH, CH_SUBSYSTEM, ST_SCHED_HUNGRY, 0, "VSh");
	CASE_OP('V', 'S', 'f', ACT_POP, CH_SUBSYSTEM, ST_SCHED_HUNGRY, 0, "VSf");
	CASE_OP('V', 'A', 'r', ACT_PUSH, CH_SUBSYSTEM, ST_API_CREATE, 0, "VAr");
	CASE_OP('V', 'A', 'R', ACT_POP, CH_SUBSYSTEM, ST_API_CREATE, 0, "VAR");
	CASE_OP('V', 'H', 'w', ACT_PUSH, CH_SUBSYSTEM, ST_WORKER, 0, "VHw");
	CASE_OP('V', 'P', 'r', ACT_SET, CH_IDLE, ST_RESTING, 0, "VPr");
	CASE_IGN('V', 'S', '@', "VS@");
	CASE_REFUSE('V', 'S', 'z', "VSz");
	CASE_REFUSE('V', 'Z', '[', "VZ[");
	CASE_REFUSE('6', 'S', 'h', "6Sh sent to nosv");
#elif defined(C08_NANOS6)
	CASE_OP_FULL('6', 'W', '[', ACT_PUSH, CH_SUBSYSTEM, ST_WORKER_LOOP, 0, "6W[");
	CASE_OP('6', 'W', ']', ACT_POP, CH_SUBSYSTEM, ST_WORKER_LOOP, 0, "6W]");
	CASE_OP('6', 'B', 'w', ACT_PUSH, CH_SUBSYSTEM, ST_BLK_TASKWAIT, 0, "6Bw");
	CASE_OP('6', 'B', 'W', ACT_POP, CH_SUBSYSTEM, ST_BLK_TASKWAIT, 0, "6BW");
	CASE_OP('6', 'H', 'w', ACT_PUSH, CH_THREAD, ST_TH_WORKER, 0, "6Hw");
	CASE_OP('6', 'H', 'W', ACT_POP, CH_THREAD, ST_TH_WORKER, 0, "6HW");
	CASE_OP('6', 'P', 'a', ACT_SET, CH_IDLE, ST_ABSORBING, 0, "6Pa");
	CASE_IGN('6', 't', '[', "6t[");
	CASE_REFUSE('6', 'W', 'z', "6Wz");
	CASE_REFUSE('6', 'Z', '[', "6Z[");
	CASE_REFUSE('V', 'W', '[', "VW[ sent to nanos6");
#elif defined(C08_NODES)
	CASE_OP_FULL('D', 'R', '[', ACT_PUSH, CH_SUBSYSTEM, ST_REGISTER, 0, "DR[");
	CASE_OP('D', 'R', ']', ACT_POP, CH_SUBSYSTEM, ST_REGISTER, 0, "DR]");
	CASE_OP('D', 'T', '[', ACT_PUSH, CH_SUBSYSTEM, ST_TASKWAIT, 0, "DT[");
	CASE_OP('D', 'T', ']', ACT_POP, CH_SUBSYSTEM, ST_TASKWAIT, 0, "DT]");
	CASE_REFUSE('D', 'R', 'x', "DRx");
	CASE_REFUSE('D', 'Z', '[', "DZ[");
	CASE_REFUSE('M', 'R', '[', "MR[ sent to nodes");
#elif defined(C08_MPI)
	CASE_OP_FULL('M', 'W', '[', ACT_PUSH, CH_FUNCTION, ST_MPI_WAIT, 0, "MW[");
	CASE_OP('M', 'W', ']', ACT_POP, CH_FUNCTION, ST_MPI_WAIT, 0, "MW]");
	CASE_OP('M', 'S', '[', ACT_PUSH, CH_FUNCTION, ST_MPI_SEND, 0, "MS[");
	CASE_OP('M', 's', '[', ACT_PUSH, CH_FUNCTION, ST_MPI_ISEND, 0, "Ms[");
	CASE_OP('M', 'e', 'B', ACT_POP, CH_FUNCTION, ST_MPI_IREDUCE_SCATTER_BLOCK, 0, "MeB");
	CASE_REFUSE('M', 'W', 'x', "MWx");
	CASE_REFUSE('M', 'Z', '[', "MZ[");
	CASE_REFUSE('T', 'W', '[', "TW[ sent to mpi");
#elif defined(C08_TAMPI)
	CASE_OP_FULL('T', 'C', 'i', ACT_PUSH, CH_SUBSYSTEM, ST_COMM_ISSUE_NONBLOCKING, 0, "TCi");
	CASE_OP('T', 'C', 'I', ACT_POP, CH_SUBSYSTEM, ST_COMM_ISSUE_NONBLOCKING, 0, "TCI");
	CASE_OP('T', 'T', 'w', ACT_PUSH, CH_SUBSYSTEM, ST_TICKET_WAIT, 0, "TTw");
	CASE_OP('T', 'T', 'W', ACT_POP, CH_SUBSYSTEM, ST_TICKET_WAIT, 0, "TTW");
	CASE_REFUSE('T', 'C', 'x', "TCx");
	CASE_REFUSE('T', 'Z', 'i', "TZi");
	CASE_REFUSE('M', 'C', 'i', "MCi sent to tampi");
#elif defined(C08_OPENMP)
	CASE_OP_FULL('P', 'B', 'b', ACT_PUSH, CH_SUBSYSTEM, ST_BARRIER_PLAIN, 0, "PBb");
	CASE_OP('P', 'B', 'B', ACT_POP, CH_SUBSYSTEM, ST_BARRIER_PLAIN, 0, "PBB");
	CASE_OP('P', 'T', '[', ACT_PUSH, CH_SUBSYSTEM, ST_TASK_RUN, 0, "PT[");
	CASE_OP('P', 'T', ']', ACT_POP, CH_SUBSYSTEM, ST_TASK_RUN, 0, "PT]");
	CASE_IGN('P', 'B', 's', "PBs");
	CASE_REFUSE('P', 'B', 'x', "PBx");
	CASE_REFUSE('P', 'Z', '[', "PZ[");
	CASE_REFUSE('M', 'B', 'b', "MBb sent to openmp");
#elif defined(C08_KERNEL)
	CASE_OP_NOSTATE('K', 'C', 'O', ACT_PUSH, CH_CS, ST_CSOUT, 0, "KCO");
	CASE_OP_NOSTATE('K', 'C', 'I', ACT_POP, CH_CS, ST_CSOUT, 0, "KCI");
	CASE_REFUSE('K', 'C', 'x', "KCx");
	CASE_REFUSE('K', 'Z', 'O', "KZO");
	CASE_REFUSE('O', 'C', 'O', "OCO sent to kernel");
#elif defined(C08_OVNI)
	CASE_OP_FULL('O', 'F', '[', ACT_SET, CH_FLUSH, 1, 0, "OF[");
	CASE_OP('O', 'F', ']', ACT_SET, CH_FLUSH, 0, 1, "OF]");
	CASE_IGN('O', 'U', '[', "OU[");
	CASE_REFUSE('O', 'F', 'x', "OFx");
	CASE_REFUSE('O', 'Z', '[', "OZ[");
	CASE_REFUSE('K', 'F', '[', "KF[ sent to ovni");
#endif
}

#if defined(C08_NOSV) || defined(C08_NANOS6)
/* ---------------- task body region: VTx / 6Tx push, VTe / 6Te pop ST_TASK_BODY ---------------- */
WITNESS(update_task_ss_channel);
int w_tr;
int c_update_task_ss_channel(struct emu *emu, char tr)
__CPROVER_requires(EMU_SHAPE(emu) && DIAG_PRE && g_nops == 0)
__CPROVER_requires(WBIND(update_task_ss_channel, w_tr == tr))
__CPROVER_assigns(LOG_FRAME, DIAG_FRAME)
__CPROVER_ensures(__CPROVER_return_value == 0 || __CPROVER_return_value == -1)
/* execute opens the "task body" region, end closes exactly that region; pause/resume touch nothing */
__CPROVER_ensures(!(tr == 'x' || tr == 'e') || (
	g_nops == 1 && g_op == (tr == 'x' ? ACT_PUSH : ACT_POP) && g_opchan == &g_chans[CH_SUBSYSTEM] &&
	g_opval_t == VALUE_INT64 && g_opval_i == ST_TASK_BODY &&
	(__CPROVER_return_value == 0) == (g_chan_ret == 0)))
__CPROVER_ensures((tr == 'x' || tr == 'e') || (g_nops == 0 && __CPROVER_return_value == 0))
;

void h_update_task_ss_channel(void)
{
	WITNESS_ON(update_task_ss_channel);
	MK_EMU;
	set_event(emu, MID, 'T', 'x');
	if (!DIAG_PRE) return;
	char tr;
	bind_pre(emu);
	int r = update_task_ss_channel(emu, tr);
	if (r == 0 && w_tr == 'x') REACH("task execute pushes the task body region");
	if (r == 0 && w_tr == 'e') REACH("task end pops the task body region");
	if (r != 0 && w_tr == 'e') REACH("task end refused by the channel layer");
	if (r == 0 && w_tr == 'p') REACH("task pause leaves the subsystem stack alone");
}
#endif
