/* A5 (function coverage, plan C02) -- compare_int64 of the real src/emu/ovni/event.c: the
 * comparator handed to qsort() by pre_burst to order the burst deltas (median / max of the
 * burst statistics).  qsort's result is specified only for a comparator that is a consistent
 * total order; harness/c02_burst.c ASSUMES qsort and never runs the comparator, so it is
 * covered here:
 *   group a5_compare_int64       exact functional contract: the sign of the mathematical
 *                                comparison of the two pointed-to values as -1 / 0 / +1, over
 *                                the FULL int64 range (no overflow: a subtraction-based
 *                                comparator would fail here), reads only, writes nothing
 *   group a5_compare_int64_laws  the laws, on the real body and three arbitrary values:
 *                                cmp(x,x) == 0; cmp(x,y) == -cmp(y,x) (sign antisymmetry);
 *                                cmp(x,y) == 0 iff x == y; transitivity of <, of <= and of ==
 *                                (cmp(x,y) <= 0 and cmp(y,z) <= 0 imply cmp(x,z) <= 0, strict
 *                                if either is strict); totality (one of <, ==, > always).
 * Loop-free: unbounded. */
#include "prelude.h"
#include "extend.c"
unsigned g_qsort_calls;
void verif_qsort(void *base, size_t n, size_t sz) { (void) base; (void) n; (void) sz; g_qsort_calls++; }
#define qsort(b, n, s, c) verif_qsort((b), (n), (s))     /* variadic-free stand-in; not reached here */
#include "ovni/event.c"    /* the real /repo/src/emu/ovni/event.c */

#define RV __CPROVER_return_value

WITNESS(compare_int64);
long w_a, w_b; int w_alias;
int c_compare_int64(const void *a, const void *b)
__CPROVER_requires(__CPROVER_is_fresh(a, sizeof(int64_t)))
__CPROVER_requires(__CPROVER_pointer_equals(b, a) || __CPROVER_is_fresh(b, sizeof(int64_t)))
__CPROVER_requires(WBIND(compare_int64, w_a == *(const int64_t *) a && w_b == *(const int64_t *) b && w_alias == (a == b)))
__CPROVER_assigns()
__CPROVER_ensures(RV == (*(const int64_t *) a > *(const int64_t *) b) - (*(const int64_t *) a < *(const int64_t *) b))
__CPROVER_ensures(RV == -1 || RV == 0 || RV == 1)
;
void h_compare_int64(void)
{
	const void *a, *b;
	WITNESS_ON(compare_int64);
	int r = compare_int64(a, b);
	if (r < 0 && w_a == (-0x7fffffffffffffffL - 1) && w_b == 0x7fffffffffffffffL) REACH("INT64_MIN before INT64_MAX (difference overflows)");
	if (r > 0 && w_a == 0x100000000L && w_b == 1) REACH("2^32 after 1 (low words alone would say otherwise)");
	if (r == 0) REACH("equal values");
	if (r == 0 && w_alias) REACH("an element compared with itself");
}

#ifdef A5_LAWS
void h_compare_int64_laws(void)
{
	int64_t x = nondet_long(), y = nondet_long(), z = nondet_long();
	int xx = compare_int64(&x, &x);
	int xy = compare_int64(&x, &y), yx = compare_int64(&y, &x);
	int yz = compare_int64(&y, &z), xz = compare_int64(&x, &z);
	VASSERT(xx == 0, "reflexive: an element equals itself");
	VASSERT(xy == -yx, "sign antisymmetry: cmp(x,y) == -cmp(y,x)");
	VASSERT((xy == 0) == (x == y), "equality exactly when the values are equal");
	VASSERT((xy < 0) == (x < y) && (xy > 0) == (x > y), "order of the integers");
	VASSERT((xy < 0) + (xy == 0) + (xy > 0) == 1, "total: exactly one of before / equal / after");
	VASSERT(!(xy <= 0 && yz <= 0) || xz <= 0, "transitivity of <=");
	VASSERT(!(xy <= 0 && yz <= 0 && (xy < 0 || yz < 0)) || xz < 0, "transitivity, strict if one step is strict");
	VASSERT(!(xy == 0 && yz == 0) || xz == 0, "transitivity of equality");
	VASSERT(!(xy == 0) || yz == xz, "equal elements compare alike with any third");
	if (xy < 0 && yz < 0) REACH("strictly ascending triple");
	if (xy == 0 && yz > 0) REACH("tie then descending");
	if (xy > 0 && yz < 0 && xz == 0) REACH("x == z above y");
}
#endif
