/* C19 -- ovni/event.c: every payload access of the ovni model handlers under
 * EMU_EV_WF only (c19_evwf.h), for an arbitrary category/value/payload size/content.
 * model_ovni_event is verified with all its static handlers inline; functions of
 * other files (thread.c, cpu.c, loom.c, proc.c, chan.c, mark.c, qsort) are most
 * general stubs that record the arguments which the handlers take from the payload.
 *
 * With -DC19_DBG_LIVE the dbg() macro evaluates its arguments when the debug flag
 * (ovniemu -d) is set, as the real macro does (the prelude drops dbg entirely). */
#include "prelude.h"
#ifdef C19_DBG_LIVE
#undef dbg
#define dbg(...) (is_debug_enabled ? (void) (__VA_ARGS__) : (void) 0)
int is_debug_enabled;
#endif
#include "extend.c"        /* the real extend_get */
#include "ovni/event.c"    /* the real /repo/src/emu/ovni/event.c */
#include "c19_evwf.h"

/* ---- ghosts: what the handlers took from the payload ---- */
unsigned g_cpu_calls, g_find_calls;
int g_cpu_index, g_find_tid;
#define GHOSTS g_cpu_calls, g_find_calls, g_cpu_index, g_find_tid
#define GHOSTS_PRE (g_cpu_calls == 0 && g_find_calls == 0)

/* ---- most general stubs for functions outside the unit (trusted, see plan) ---- */
struct cpu *loom_get_cpu(struct loom *loom, int index)
{
	(void) loom;
	g_cpu_calls++; g_cpu_index = index;
	if (nondet_bool()) return NULL;
	return malloc(sizeof(struct cpu));
}
struct thread *proc_find_thread(struct proc *proc, int tid)
{
	(void) proc;
	g_find_calls++; g_find_tid = tid;
	if (nondet_bool()) return NULL;
	return malloc(sizeof(struct thread));   /* arbitrary content: any state, any cpu */
}
struct thread *loom_find_thread(struct loom *loom, int tid)
{
	(void) loom;
	__CPROVER_assert(g_find_calls > 0 && tid == g_find_tid, "loom_find_thread gets the tid looked up in the process");
	if (nondet_bool()) return NULL;
	return malloc(sizeof(struct thread));
}
int thread_set_state(struct thread *th, enum thread_state state) { (void) th; (void) state; return nondet_bool() ? 0 : -1; }
int thread_set_cpu(struct thread *th, struct cpu *cpu) { (void) th; (void) cpu; return nondet_bool() ? 0 : -1; }
int thread_unset_cpu(struct thread *th) { (void) th; return nondet_bool() ? 0 : -1; }
int thread_migrate_cpu(struct thread *th, struct cpu *cpu) { (void) th; (void) cpu; return nondet_bool() ? 0 : -1; }
int cpu_update(struct cpu *cpu) { (void) cpu; return nondet_bool() ? 0 : -1; }
int cpu_add_thread(struct cpu *cpu, struct thread *th) { (void) th; (void) cpu; return nondet_bool() ? 0 : -1; }
int cpu_remove_thread(struct cpu *cpu, struct thread *th) { (void) th; (void) cpu; return nondet_bool() ? 0 : -1; }
int cpu_migrate_thread(struct cpu *cpu, struct thread *th, struct cpu *newcpu) { (void) th; (void) cpu; (void) newcpu; return nondet_bool() ? 0 : -1; }
int chan_set(struct chan *chan, struct value value) { (void) chan; (void) value; return nondet_bool() ? 0 : -1; }
int mark_event(struct emu *emu) { (void) emu; if (nondet_bool()) return 0; verif_err(); return -1; }
void qsort(void *base, size_t n, size_t sz, int (*cmp)(const void *, const void *))
{
	/* any permutation-free havoc of the array: pre_burst only prints statistics */
	(void) cmp;
	__CPROVER_assert(__CPROVER_w_ok(base, n * sz), "qsort array writable");
	__CPROVER_havoc_slice(base, n * sz);
}

/* invariant of the per-thread ovni state (created zeroed by model_ovni_create; the
 * times are delta clocks of sorted streams, which are never negative) */
#define BT1(t, i) ((t)->burst_time[i] >= 0)
#define BT10(t, i) (BT1(t, i) && BT1(t, i + 1) && BT1(t, i + 2) && BT1(t, i + 3) && BT1(t, i + 4) && \
	BT1(t, i + 5) && BT1(t, i + 6) && BT1(t, i + 7) && BT1(t, i + 8) && BT1(t, i + 9))
_Static_assert(MAX_BURSTS == 100, "burst table size");
#define OVNI_TH_WF(t) ((t)->nbursts >= 0 && (t)->nbursts < MAX_BURSTS && (t)->flush_start >= 0 && \
	BT10(t, 0) && BT10(t, 10) && BT10(t, 20) && BT10(t, 30) && BT10(t, 40) && \
	BT10(t, 50) && BT10(t, 60) && BT10(t, 70) && BT10(t, 80) && BT10(t, 90))
#define OVNI_TH_WF_LIGHT(t) ((t)->nbursts >= 0 && (t)->nbursts < MAX_BURSTS && (t)->flush_start >= 0)
#define OTH(emu) ((struct ovni_thread *) (emu)->thread->ext.ctx['O'])

/* Used only to REPLACE the call to pre_burst in group model_ovni_event, whose precondition
 * excludes category 'B': requires(0) is asserted at the call site, so the group fails if the
 * call were reachable; it keeps pre_burst's 99-iteration floating-point loops out of that run. */
int cx_pre_burst_unreachable(struct emu *emu)
__CPROVER_requires(0)
__CPROVER_assigns()
__CPROVER_ensures(1)
;

unsigned w_c, w_v, w_is_jumbo; unsigned long w_psize;
int w_i32_0, w_i32_1;
WITNESS(model_ovni_event);

int c_model_ovni_event(struct emu *emu)
__CPROVER_requires(__CPROVER_is_fresh(emu, sizeof(*emu)) && DIAG_PRE && GHOSTS_PRE)
__CPROVER_requires(EMU_EV_WF(emu->ev) && emu->ev->dclock >= 0)
__CPROVER_requires(__CPROVER_is_fresh(emu->thread, sizeof(struct thread)))
__CPROVER_requires(__CPROVER_is_fresh(emu->thread->ext.ctx['O'], sizeof(struct ovni_thread)))
__CPROVER_requires(OVNI_TH_WF_LIGHT(OTH(emu)) && __CPROVER_is_fresh(OTH(emu)->m.ch, sizeof(struct chan) * CH_MAX))
/* OB. events (no payload access) go to pre_burst, verified in its own group */
__CPROVER_requires(emu->ev->c != 'B')
__CPROVER_requires(emu->thread->cpu == NULL || __CPROVER_is_fresh(emu->thread->cpu, sizeof(struct cpu)))
__CPROVER_requires(__CPROVER_is_fresh(emu->loom, sizeof(struct loom)))
/* [F-C19-2, repaired] OHC is accepted only with its declared 12-byte payload; with -d its
 * three u32 arguments are read for the debug message (regression obligation: ensures below) */
__CPROVER_requires(WBIND(model_ovni_event, w_c == emu->ev->c && w_v == emu->ev->v && w_psize == emu->ev->payload_size &&
	w_is_jumbo == (unsigned) emu->ev->is_jumbo &&
	(emu->ev->payload_size < 8 || (w_i32_0 == PL_I32(emu->ev, 0) && w_i32_1 == PL_I32(emu->ev, 1)))))
__CPROVER_assigns(GHOSTS, DIAG_FRAME, OTH(emu)->flush_start)
__CPROVER_ensures(__CPROVER_return_value == 0 || __CPROVER_return_value == -1)
__CPROVER_ensures(!(emu->ev->c == 'H' && emu->ev->v == 'C' && __CPROVER_return_value == 0) || emu->ev->payload_size == 12)
/* a CPU index taken from the event is the i32 at payload bytes 0..3 and the handler
 * saw at least 4 payload bytes first */
__CPROVER_ensures(g_cpu_calls == 0 || (g_cpu_calls == 1 && emu->ev->payload_size >= 4 && g_cpu_index == PL_I32(emu->ev, 0)))
/* a thread id taken from the event is the i32 at payload bytes 4..7 of an 8-byte payload */
__CPROVER_ensures(g_find_calls == 0 || (g_find_calls == 1 && emu->ev->payload_size == 8 && g_find_tid == PL_I32(emu->ev, 1)))
/* accepted events that carry arguments were size-checked */
__CPROVER_ensures(__CPROVER_return_value != 0 || !(emu->ev->c == 'H' && emu->ev->v == 'x') || (emu->ev->payload_size >= 4 && g_cpu_calls == 1))
__CPROVER_ensures(__CPROVER_return_value != 0 || !(emu->ev->c == 'A' && emu->ev->v == 's') || (emu->ev->payload_size == 4 && g_cpu_calls == 1))
__CPROVER_ensures(__CPROVER_return_value != 0 || !(emu->ev->c == 'A' && emu->ev->v == 'r') || (emu->ev->payload_size == 8 && g_cpu_calls == 1 && g_find_calls == 1))
/* events without arguments touch neither */
__CPROVER_ensures((emu->ev->c == 'H' && emu->ev->v == 'x') || emu->ev->c == 'A' || (g_cpu_calls == 0 && g_find_calls == 0))
__CPROVER_ensures(OVNI_TH_WF_LIGHT(OTH(emu)))
__CPROVER_ensures(__CPROVER_return_value == 0 || g_err > __CPROVER_old(g_err))
;

void h_model_ovni_event(void)
{
	struct emu *emu;
	WITNESS_ON(model_ovni_event);
	int r = model_ovni_event(emu);
	if (r == 0 && w_c == 'H' && w_v == 'x') REACH("OHx accepted");
	if (r == 0 && w_c == 'H' && w_v == 'x' && w_psize == 16) REACH("OHx with a longer payload accepted");
	if (r != 0 && w_c == 'H' && w_v == 'x' && w_psize == 0) REACH("OHx without payload refused");
	if (r == 0 && w_c == 'A' && w_v == 's') REACH("OAs accepted");
	if (r == 0 && w_c == 'A' && w_v == 'r') REACH("OAr accepted");
	if (r != 0 && w_c == 'A' && w_v == 'r' && w_psize == 4) REACH("OAr with 4 bytes refused");
	if (r != 0 && w_c == 'H' && w_v == 'C' && w_psize == 0) REACH("OHC without payload refused");
	if (r == 0 && w_c == 'H' && w_v == 'C') REACH("OHC with 12 bytes accepted");
	if (r == 0 && w_c == 'F') REACH("flush accepted");
	if (r == 0 && w_c == 'M') REACH("mark dispatched");
	if (r == 0 && w_c == 'U' && w_is_jumbo) REACH("jumbo sorting event ignored");
}
