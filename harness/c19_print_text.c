/* C19 -- ev_spec_print (src/emu/ev_spec.c): the decoded line, terminator included, stays inside
 * the caller's buffer outbuf[0 .. outlen).  BOUNDED: descriptions of <= 6 literal characters
 * (no '%' region: format_region is not covered, see DESIGN 9.2), outlen 1..6, the buffer object
 * has exactly outlen bytes so that a write at outbuf[outlen] is outside the object.
 * Assume/assert harness on the real code. */
#include "prelude.h"
#include "emu_ev.h"
#include "ev_spec.c"

#ifdef H_EV_SPEC_PRINT_TEXT
/* one description length per call (concrete text, so the input cursor stays concrete and the
 * '%' branch is pruned); outlen is symbolic */
static void one(const char *desc, int dl)
{
	/* stack objects: a description pointer read back from a heap object is no longer a constant
	 * for symex and every parsing loop of format_region then unwinds to its bound (measured) */
	struct ev_spec sp; struct emu_ev e;
	struct ev_spec *spec = &sp; struct emu_ev *ev = &e;
	spec->description = desc; spec->nargs = 0;
	int outlen = nondet_int(); __CPROVER_assume(outlen >= -1 && outlen <= 7);
	char *out = outlen > 0 ? malloc((size_t) outlen) : NULL;
	__CPROVER_assume(outlen <= 0 || out != NULL);
	unsigned e0 = g_err;
	int r = ev_spec_print(spec, ev, out, outlen);
	VASSERT((r == 0) == (outlen >= 1 && dl <= outlen - 1), "printed iff the text and its terminator fit in outlen bytes");
	VASSERT(r == 0 || g_err > e0, "a refusal is diagnosed");
	if (r == 0) {
		VASSERT(out[dl] == 0, "terminated inside the buffer");
		for (int i = 0; i < 6; i++)
			if (i < dl) VASSERT(out[i] == desc[i], "literal characters are copied in order");
		if (dl == 5 && outlen == 6) REACH("the text fills the buffer exactly");
	} else {
		if (dl == 5) REACH("refused");
	}
}
void h_ev_spec_print_text(void)
{
	g_err = 0;
	one("", 0); one("a", 1); one("ab", 2); one("abc", 3); one("abcd", 4); one("abcde", 5);
	REACH("all lengths done");
}
#endif
