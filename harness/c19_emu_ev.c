/* C19 -- emu_ev on an event that lies inside the stream (what stream_step
 * guarantees): the decoded view satisfies EMU_EV_WF, the invariant under which every
 * handler and the event printer are verified (c19_evwf.h). */
#include "prelude.h"
#include "emu_ev.c"        /* the real /repo/src/emu/emu_ev.c */
#include "ovni.c"          /* ovni_payload_size / get_jumbo_payload_size run on file bytes */
#include "c19_evwf.h"

unsigned w_flags; unsigned long w_jumbo_size, w_evsize;
unsigned g_flags; unsigned long g_js; long long g_evsize;
WITNESS(emu_ev);

/* The event object has exactly g_evsize bytes (12 + payload), except that a jumbo
 * event shorter than 28 bytes is given 28 bytes: CBMC checks `ev->payload.jumbo.size`
 * as an access to the whole 16-byte union member (see c19_stream.c). */
#define OEV_OBJ_SIZE (g_evsize < 28 && (g_flags & OVNI_EV_JUMBO) ? 28 : g_evsize)

void c_emu_ev(struct emu_ev *ev, const struct ovni_ev *oev, int64_t sclock, int64_t dclock)
__CPROVER_requires(__CPROVER_is_fresh(ev, sizeof(*ev)))
/* the size stream_step accepted: 12 + payload, at most INT32_MAX */
__CPROVER_requires(g_evsize >= 12 && g_evsize <= INT32_MAX && __CPROVER_is_fresh(oev, (size_t) OEV_OBJ_SIZE))
__CPROVER_requires(g_flags == oev->header.flags)
/* clocks above INT64_MAX are carved out at stream_step (finding F-C19-1) */
__CPROVER_requires(oev->header.clock <= (uint64_t) INT64_MAX)
__CPROVER_requires(!(g_flags & OVNI_EV_JUMBO) || (g_evsize >= 16 && g_js == *(uint32_t *) ((uint8_t *) oev + 12)))
__CPROVER_requires(g_evsize == ((g_flags & OVNI_EV_JUMBO) ? 16LL + (long long) g_js : 12LL + (((g_flags & 0x0f) == 0) ? 0 : ((g_flags & 0x0f) + 1))))
__CPROVER_requires(WBIND(emu_ev, w_flags == g_flags && w_jumbo_size == g_js && w_evsize == (unsigned long) g_evsize))
__CPROVER_assigns(*ev)
__CPROVER_ensures(ev->payload_size == (size_t) (g_evsize - 12))
__CPROVER_ensures(EMU_EV_WF_VALS(ev))
__CPROVER_ensures(ev->payload_size == 0 || ev->payload == &oev->payload)
__CPROVER_ensures(ev->is_jumbo == ((g_flags & OVNI_EV_JUMBO) != 0))
__CPROVER_ensures(!ev->is_jumbo || (size_t) g_js + 4 == ev->payload_size)
__CPROVER_ensures(ev->m == oev->header.model && ev->c == oev->header.category && ev->v == oev->header.value && ev->mcv[3] == 0)
__CPROVER_ensures(ev->rclock == (int64_t) oev->header.clock && ev->sclock == sclock && ev->dclock == dclock)
;

void h_emu_ev(void)
{
	struct emu_ev *ev; const struct ovni_ev *oev; int64_t s, d;
	WITNESS_ON(emu_ev);
	emu_ev(ev, oev, s, d);
	REACH("emu_ev returns");
	if (g_evsize == 12) REACH("no payload");
	if (g_evsize == 28 && !(g_flags & OVNI_EV_JUMBO)) REACH("16-byte payload");
	if ((g_flags & OVNI_EV_JUMBO) && g_js == 0) REACH("jumbo with no data");
	if ((g_flags & OVNI_EV_JUMBO) && g_evsize == INT32_MAX) REACH("largest jumbo");
}
