/* c09_fs_post.h -- the stubs of the ghost file system (see c09_fs.h).  Included AFTER the
 * real ovni.c because the point invariants read the runtime's own globals (rproc, rthread). */
#ifndef C09_FS_POST_H
#define C09_FS_POST_H

/* ---- stdio streams ----
 * The runtime has at most one input and one output stream in use at a time; their state
 * lives in two global slots (so that loop invariants can name it).  A FILE* is a heap
 * handle carrying the generation of the slot: using a handle after fclose is a pointer
 * error, using a stale (leaked, superseded) handle fails the generation check.
 * While an output stream is open on a file, that file's state is DERIVED from the slot
 * (c09_state); fclose writes it back to g_st. */
struct c09_handle { int wr; unsigned gen; };
int g_in_open, g_in_tree, g_in_id, g_in_err;
unsigned long g_in_pos;      /* bytes read so far */
unsigned long g_in_len;      /* length of what is being read */
unsigned char g_in_byte;     /* its byte at g_pos */
unsigned g_in_gen;
int g_out_open, g_out_tree, g_out_id, g_out_err;
unsigned long g_out_pos;     /* bytes accepted by fwrite so far */
int g_out_match;             /* no wrong byte at g_pos so far */
unsigned g_out_gen;

static int c09_state(int tree, int id) { return C09_STATE(tree, id); }
/* finished mark of the content written to <tree>/stream.json through stdio: in the runtime unit this is
 * the relocation copy of the other tree's json (harness/c09_parson.c: the value being serialized) */
#ifndef C09_JFIN_SRC
#define C09_JFIN_SRC(tree) g_jfin[1 - (tree)]
#endif
static void c09_die_hook(void) { C09_POINT_ASSERT("die()"); }

FILE *fopen(const char *path, const char *mode)
{
	CRASH_POINT("fopen");
	VASSERT(PATH_WF(path) && path[1] != 0, "fopen: path names a stream file");
	VASSERT(PATH_MINE(path), "fopen: the file is in THIS thread's directory (path formatted from a thread directory carrying the thread's own tid)");
	int tree = c09_tree(path), id = c09_file(path);
	int wr = (mode[0] == 'w');
	if (nondet_bool() || (!wr && c09_state(tree, id) == S_ABSENT)) { g_fsfault++; __CPROVER_errno = nondet_int(); return NULL; }
	struct c09_handle *h = malloc(sizeof(*h));
	__CPROVER_assume(h != NULL);
	h->wr = wr;
	if (wr) {
		VASSERT(!g_out_open, "fopen(w): model has one output stream at a time");
		VASSERT(!(g_in_open && g_in_tree == tree && g_in_id == id), "fopen(w) on the file being read");
		/* created or truncated: whatever was there is gone (state derived from the slot from now on) */
		g_out_open = 1; g_out_tree = tree; g_out_id = id; g_out_pos = 0; g_out_match = 1; g_out_err = 0;
		h->gen = ++g_out_gen;
		/* the json written through stdio is a copy of the other tree's json (byte-exactness is checked) */
		if (id == F_JSON) g_jfin[tree] = C09_JFIN_SRC(tree);
	} else {
		g_in_open = 1; g_in_tree = tree; g_in_id = id; g_in_pos = 0; g_in_err = 0;
		h->gen = ++g_in_gen;
		if (c09_state(tree, id) == S_COMPLETE) {
			g_in_len = g_len[id]; g_in_byte = g_obyte[id];
		} else {
			/* a file that is not known to hold the original: any length, any content */
			unsigned long l = nondet_size_t();
			__CPROVER_assume(l < (1UL << 62));
			g_in_len = l; g_in_byte = nondet_uchar();
		}
	}
	return (FILE *) h;
}

size_t fread(void *buf, size_t size, size_t n, FILE *f)
{
	CRASH_POINT("fread");
	struct c09_handle *h = (struct c09_handle *) f;
	VASSERT(size == 1, "fread model: element size 1");
	VASSERT(!h->wr && g_in_open && h->gen == g_in_gen, "fread on the open input stream");
	size_t k = nondet_size_t();
	unsigned long left = g_in_len - g_in_pos;
	__CPROVER_assume(k <= n && k <= left);
	if (nondet_bool() && !g_in_err) { g_in_err = 1; g_fsfault++; }   /* sticky error indicator */
	/* a zero count means end of file or error */
	__CPROVER_assume(k > 0 || left == 0 || n == 0 || g_in_err);
	if (k > 0 && g_pos >= g_in_pos && g_pos - g_in_pos < k)
		((unsigned char *) buf)[g_pos - g_in_pos] = g_in_byte;
	g_in_pos += k;
	return k;
}

size_t fwrite(const void *buf, size_t size, size_t n, FILE *f)
{
	CRASH_POINT("fwrite");
	struct c09_handle *h = (struct c09_handle *) f;
	VASSERT(size == 1, "fwrite model: element size 1");
	VASSERT(h->wr && g_out_open && h->gen == g_out_gen, "fwrite on the open output stream");
	size_t m = nondet_size_t();
	__CPROVER_assume(m <= n);
	if (m < n) { g_out_err = 1; g_fsfault++; }
	if (m > 0 && g_pos >= g_out_pos && g_pos - g_out_pos < m)
		g_out_match = (((const unsigned char *) buf)[g_pos - g_out_pos] == g_obyte[g_out_id]);
	g_out_pos += m;
	return m;
}

int ferror(FILE *f)
{
	struct c09_handle *h = (struct c09_handle *) f;
	VASSERT(h->wr ? (g_out_open && h->gen == g_out_gen) : (g_in_open && h->gen == g_in_gen), "ferror on an open stream");
	return h->wr ? g_out_err : g_in_err;
}

int fclose(FILE *f)
{
	CRASH_POINT("fclose");
	struct c09_handle *h = (struct c09_handle *) f;
	int wr = h->wr;
	VASSERT(wr ? (g_out_open && h->gen == g_out_gen) : (g_in_open && h->gen == g_in_gen), "fclose on an open stream");
	free(h);
	if (!wr) {
		g_in_open = 0;
		return nondet_bool() ? EOF : 0;   /* nothing is lost when closing an input stream fails */
	}
	int st = c09_state(g_out_tree, g_out_id);
	g_out_open = 0;
	if (nondet_bool()) {
		/* buffered data not guaranteed on disk */
		g_st[g_out_tree][g_out_id] = st;
		g_fsfault++; __CPROVER_errno = nondet_int();
		return EOF;
	}
	g_st[g_out_tree][g_out_id] = (st == S_MAYBE) ? S_COMPLETE : st;
	return 0;
}

/* fputs: never called by the runtime unit; parson's json_serialize_to_file[_pretty] (real code in
 * harness/c09_parson.c) hands the serialized text to stdio with ONE fputs.  The text IS the original of the
 * file being written (g_len / g_obyte of its id); the string given must be that text from its first byte
 * (the harness object c09_text).  Success: every byte was accepted by stdio (a second fputs on the same
 * stream makes the length wrong: PARTIAL).  Failure (EOF): error indicator set, an arbitrary prefix
 * accepted, content not known. */
char c09_text[8];            /* stands for the serialized text (content abstracted to g_len / g_obyte) */
int fputs(const char *str, FILE *f)
{
	CRASH_POINT("fputs");
	struct c09_handle *h = (struct c09_handle *) f;
	VASSERT(h->wr && g_out_open && h->gen == g_out_gen, "fputs on the open output stream");
	VASSERT(str == c09_text, "fputs is given the serialized text, from its first byte");
	unsigned long len = g_len[g_out_id];
	if (nondet_bool()) {
		unsigned long k = nondet_size_t();
		__CPROVER_assume(k <= len);
		g_out_err = 1; g_out_match = 0; g_fsfault++; __CPROVER_errno = nondet_int();
		g_out_pos += k;
		return EOF;
	}
	g_out_pos += len;
	int r = nondet_int();
	__CPROVER_assume(r >= 0);
	return r;
}

static int c09_tree_empty(int tree)
{
	return c09_state(tree, F_OBS) == S_ABSENT && c09_state(tree, F_JSON) == S_ABSENT && c09_state(tree, F_AUX) == S_ABSENT
		&& !(tree == T_TMP && g_xkind == 2);
}

int remove(const char *path)
{
	CRASH_POINT("remove");
	VASSERT(PATH_WF(path), "remove: encoded path");
	VASSERT(PATH_MINE(path), "remove: a file or the directory of THIS thread");
	int tree = c09_tree(path), id = c09_file(path);
	if (nondet_bool()) { g_fsfault++; __CPROVER_errno = nondet_int(); return -1; }
	if (id == F_NONE) {
		if (!g_dir[tree] || !c09_tree_empty(tree)) { g_fsfault++; return -1; }
		g_dir[tree] = 0;
		return 0;
	}
	if (c09_state(tree, id) == S_ABSENT) { g_fsfault++; __CPROVER_errno = ENOENT; return -1; }
	VASSERT(!(g_out_open && g_out_tree == tree && g_out_id == id), "remove of the file open for writing is not modelled");
	g_st[tree][id] = S_ABSENT;
	return 0;
}

int g_rmdir_errno;            /* 0: the last rmdir succeeded; else its errno */
int g_rmdir_tree;             /* tree of the directory given to the last rmdir */
int rmdir(const char *path)
{
	CRASH_POINT("rmdir");
	int tree = c09_tree(path);
	/* a per-thread path must be this thread's (process-level directories: ovni_proc_fini) */
	VASSERT(!PATH_THR(path) || PATH_TID(path) == g_fs_tid, "rmdir: a thread directory is THIS thread's");
	g_rmdir_tree = tree;
	/* only an existing, empty directory can be removed */
	if (nondet_bool() || path[1] != 0 || !g_dir[tree] || !c09_tree_empty(tree)) {
		int e = nondet_int();
		__CPROVER_assume(e != 0);
		if (path[1] == 0 && g_dir[tree] && !c09_tree_empty(tree)) __CPROVER_assume(e == ENOTEMPTY || e == EEXIST);
		__CPROVER_errno = e;
		g_rmdir_errno = e;
		return -1;
	}
	g_dir[tree] = 0;
	g_rmdir_errno = 0;
	return 0;
}

int close(int fd)
{
	(void) fd;
	CRASH_POINT("close");
	g_fd_open = 0;
	/* the result is ignored by ovni_thread_free; bytes handed to write(2) survive anyway */
	return nondet_int();
}

ssize_t write(int fd, const void *buf, size_t n)
{
	CRASH_POINT("write");
	return verif_rt_write(fd, buf, n);
}

static int c09_open(const char *path, int flags, int mode)
{
	(void) mode;
	CRASH_POINT("open");
	VASSERT(PATH_WF(path) && path[1] != 0, "open: path names a stream file");
	VASSERT(PATH_MINE(path), "open: the stream file is in THIS thread's directory (formatted with the thread's own tid)");
	int tree = c09_tree(path), id = c09_file(path);
	int fd = nondet_int();
	__CPROVER_assume(fd >= -1);
	if (fd == -1) { g_fsfault++; __CPROVER_errno = nondet_int(); return -1; }
	if ((flags & O_CREAT) && g_st[tree][id] == S_ABSENT) g_st[tree][id] = S_COMPLETE; /* empty file, original = what write(2) gets */
	g_fd_open = 1;
	return fd;
}

/* ---- directory streams ---- */
struct dirent g_dirent;
unsigned g_dmask;            /* entries of the open directory not yet returned: bit id, bit 3 = non-stream entry */
static char c09_dirobj;

DIR *opendir(const char *path)
{
	CRASH_POINT("opendir");
	VASSERT(PATH_WF(path) && path[1] == 0, "opendir: path names a thread directory");
	VASSERT(PATH_MINE(path), "opendir: the directory of THIS thread");
	int tree = c09_tree(path);
	if (nondet_bool() || !g_dir[tree]) { g_fsfault++; __CPROVER_errno = nondet_int(); return NULL; }
	g_dmask = 0;
	if (c09_state(tree, F_OBS) != S_ABSENT) g_dmask |= 1u;
	if (c09_state(tree, F_JSON) != S_ABSENT) g_dmask |= 2u;
	if (c09_state(tree, F_AUX) != S_ABSENT) g_dmask |= 4u;
	if (tree == T_TMP && g_xkind == 2) g_dmask |= 8u;
	return (DIR *) &c09_dirobj;
}

struct dirent *readdir(DIR *d)
{
	CRASH_POINT("readdir");
	VASSERT(d == (DIR *) &c09_dirobj, "readdir on the open directory");
	/* may fail at any call: NULL with errno set (end of directory: NULL, errno unchanged) */
	if (nondet_bool()) {
		int e = nondet_int();
		__CPROVER_assume(e != 0);
		g_fsfault++; __CPROVER_errno = e;
		return NULL;
	}
	if (g_dmask == 0) return NULL;
	/* any entry not yet returned, in any order */
	unsigned k = nondet_uchar() & 3u;
	__CPROVER_assume(g_dmask & (1u << k));
	g_dmask &= ~(1u << k);
	if (k == 0) strcpy(g_dirent.d_name, "stream.obs");
	else if (k == 1) strcpy(g_dirent.d_name, "stream.json");
	else memcpy(g_dirent.d_name, g_xname, sizeof(g_xname));
	return &g_dirent;
}

int closedir(DIR *d) { (void) d; CRASH_POINT("closedir"); return nondet_int(); }

/* ---- parson: serialize the thread metadata to <procdir>/thread.N/stream.json ----
 * parson does fopen("w") / fputs / fclose on the target itself (no temporary + rename),
 * so the old content is gone as soon as the file is opened. */
#ifndef C09_REAL_PARSON
JSON_Status json_serialize_to_file_pretty(const JSON_Value *v, const char *path)
{
	(void) v;
	g_store_calls++;
	CRASH_POINT("json store: before open");
	VASSERT(PATH_WF(path) && c09_file(path) == F_JSON, "metadata is stored to stream.json");
	VASSERT(PATH_MINE(path), "metadata is stored in THIS thread's directory (path formatted with the thread's own tid)");
	VASSERT(!(g_out_open && g_out_id == F_JSON), "no stdio stream open on stream.json during the store");
	int tree = c09_tree(path);
	if (nondet_bool()) { g_store_failed = 1; g_fsfault++; return JSONFailure; }   /* serialization or fopen failed */
	/* the old metadata is deliberately replaced: from here on there is no original to preserve
	 * until the new one is complete */
	g_st[tree][F_JSON] = S_PARTIAL;
	g_had[F_JSON] = 0;
	g_jfin[tree] = ((g_keys & K_FINISHED) && g_v_finished == 1.0);
	g_keys_at_store = g_keys;
	g_finished_at_store = g_v_finished;
	CRASH_POINT("json store: opened");
	if (nondet_bool()) { g_store_failed = 1; g_fsfault++; return JSONFailure; }   /* fputs failed */
	g_st[tree][F_JSON] = S_MAYBE;
	CRASH_POINT("json store: written");
	if (nondet_bool()) { g_store_failed = 1; g_fsfault++; return JSONFailure; }   /* fclose failed */
	g_st[tree][F_JSON] = S_COMPLETE;
	if (tree == T_TMP) g_had[F_JSON] = 1;   /* a new original exists in tmp */
	CRASH_POINT("json store: closed");
	return JSONSuccess;
}
#endif

/* ---- mkpath (src/common.c, outside the unit): abstract image of the contract proved in
 * group mkpath: returns 0 only if the directory exists afterwards ---- */
int g_mkpath_failed;
int g_pdir[2];               /* the process directory of the tree exists */
int mkpath(const char *path, mode_t mode, int is_dir)
{
	(void) mode; (void) is_dir;
	CRASH_POINT("mkpath");
	VASSERT(PATH_WF(path) && path[1] == 0, "mkpath: path names a directory");
	VASSERT(PATH_THR(path) || PATH_PROC(path), "mkpath: a process-level directory or a thread directory formed from one");
	VASSERT(!PATH_THR(path) || PATH_TID(path) == g_fs_tid, "mkpath: a thread directory is formatted with the thread's own tid");
	if (nondet_bool()) { g_mkpath_failed = 1; g_fsfault++; return -1; }
	if (PATH_THR(path)) g_dir[c09_tree(path)] = 1;
	else g_pdir[c09_tree(path)] = 1;
	return 0;
}


#endif
