/* C05 -- CPU occupancy: cpu_update, find_thread, cpu_add_thread,
 * cpu_remove_thread, cpu_migrate_thread of the real cpu.c.
 *
 * The thread list of a CPU has no closed traversal invariant, so these groups
 * are BOUNDED: the harness builds a CPU whose list holds n <= C05_MAXN
 * individually allocated threads (arbitrary contents) linked with the real
 * DL_APPEND2 of utlist.h, exactly as cpu_add_thread links them.  The contract
 * texts themselves do not mention the bound. */
#include "prelude.h"
#include "chan.h"
#include "harness/c05_chanlog.h"   /* cr_chan_set, ghost log, chan_set call sites -> logged_chan_set */
#include "cpu.c"                    /* the real /repo/src/emu/cpu.c */
#include "harness/c05_cpu.h"        /* shared frames, cr_cpu_update, cr_cpu_migrate_thread */

#ifndef C05_MAXN
#define C05_MAXN 3
#endif
#ifndef C05_MAXM
#define C05_MAXM C05_MAXN          /* bound of the target CPU's list in the migrate groups */
#endif
_Static_assert(C05_MAXN >= 1 && C05_MAXN <= 4 && C05_MAXM >= 1 && C05_MAXM <= 4, "spec macros are written for at most 4 threads");

/* ---- harness-built heap, named by ghosts ---- */
struct cpu *g_cpu;            /* the CPU under test */
struct thread *g_t[5];        /* its threads in list order; NULL from g_n on */
int g_n;                      /* list length */
struct cpu *g_cpu2;           /* second CPU (migrate) */
struct thread *g_u[5];
int g_m;
struct thread *g_th;          /* thread argument of add/remove/migrate/find */
int g_sel;                    /* its position in g_t, or g_n if it is not in the list */

int w_n, w_m, w_sel, w_virtual, w_virtual2;

/* harness allocation: input objects exist (CBMC 6 lets malloc return NULL) */
static void *xalloc(size_t size)
{
	void *p = malloc(size);
	__CPROVER_assume(p != NULL);
	return p;
}

int g_with_proc;               /* harness switch: cpu_update reads th->proc->pid */
static struct thread *mk_thread(struct thread *share)
{
	struct thread *t = xalloc(sizeof(struct thread));   /* arbitrary contents */
	if (!g_with_proc)
		return t;                                    /* proc pointer arbitrary: never read */
	if (share != NULL && nondet_bool())
		t->proc = share->proc;                       /* threads of one process */
	else
		t->proc = xalloc(sizeof(struct proc));
	return t;
}

/* a CPU with arbitrary fields whose list holds n <= max threads */
static struct cpu *mk_cpu(struct thread **t, int *pn, int max)
{
	struct cpu *cpu = xalloc(sizeof(struct cpu));
	int n = nondet_int();
	__CPROVER_assume(0 <= n && n <= max);
	cpu->threads = NULL;
	t[0] = t[1] = t[2] = t[3] = t[4] = NULL;
	if (n > 0) { t[0] = mk_thread(NULL); DL_APPEND2(cpu->threads, t[0], cpu_prev, cpu_next); }
	if (n > 1) { t[1] = mk_thread(t[0]); DL_APPEND2(cpu->threads, t[1], cpu_prev, cpu_next); }
	if (n > 2) { t[2] = mk_thread(t[0]); DL_APPEND2(cpu->threads, t[2], cpu_prev, cpu_next); }
	if (n > 3) { t[3] = mk_thread(t[0]); DL_APPEND2(cpu->threads, t[3], cpu_prev, cpu_next); }
	cpu->nthreads = (size_t) n;
	*pn = n;
	return cpu;
}

/* ---- counting spec over the harness-built list.  The enforce-only contracts
 * bind the relevant thread fields once, in witness ghosts (threads are outside
 * every frame below, so these are also their post-state values) ---- */
int w_st[4];                   /* state of thread i, -1 beyond the list */
long w_tid[4], w_pid[4], w_gid[4];
int w_st0, w_st1, w_st2, w_st3;  /* the same states as scalars: native replay takes only scalar witnesses */
#define BIND_ST_SCALARS (w_st0 == w_st[0] && w_st1 == w_st[1] && w_st2 == w_st[2] && w_st3 == w_st[3])
#define BIND_THREAD(t, n, i) ( \
	w_st[i]  == ((i) < (n) ? (int) (t)[i]->state : -1) && \
	w_tid[i] == ((i) < (n) ? (long) (t)[i]->tid : 0L) && \
	w_pid[i] == ((i) < (n) ? (long) (t)[i]->proc->pid : 0L) && \
	w_gid[i] == ((i) < (n) ? (long) (t)[i]->gindex : 0L))
#define S_RUN(i) (w_st[i] == TH_ST_RUNNING)
#define S_ACT(i) (w_st[i] == TH_ST_RUNNING || w_st[i] == TH_ST_COOLING || w_st[i] == TH_ST_WARMING)
#define SEL4(a, i) ((i) == 0 ? a[0] : (i) == 1 ? a[1] : (i) == 2 ? a[2] : a[3])

/* pre-state facts of the list, bound in ghosts */
int g_nrun, g_nact, g_oversub;
int g_irun, g_iact;            /* index of the first running / active thread, -1 if none */
struct thread *g_urun, *g_uact;/* the unique running / active thread, or NULL */
long g_x1type, g_xtid, g_xpid, g_xgid, g_xatype, g_xagid;
#define BIND_COUNTS(cpu, t, n) ( \
	BIND_THREAD(t, n, 0) && BIND_THREAD(t, n, 1) && BIND_THREAD(t, n, 2) && BIND_THREAD(t, n, 3) && \
	g_nrun == S_RUN(0) + S_RUN(1) + S_RUN(2) + S_RUN(3) && \
	g_nact == S_ACT(0) + S_ACT(1) + S_ACT(2) + S_ACT(3) && \
	g_irun == (S_RUN(0) ? 0 : S_RUN(1) ? 1 : S_RUN(2) ? 2 : S_RUN(3) ? 3 : -1) && \
	g_iact == (S_ACT(0) ? 0 : S_ACT(1) ? 1 : S_ACT(2) ? 2 : S_ACT(3) ? 3 : -1) && \
	g_oversub == (g_nrun > 1 && !(cpu)->is_virtual) && \
	g_urun == (g_nrun == 1 ? SEL4((t), g_irun) : (struct thread *) NULL) && \
	g_uact == (g_nact == 1 ? SEL4((t), g_iact) : (struct thread *) NULL) && \
	g_x1type == (g_nrun == 1 ? VALUE_INT64 : VALUE_NULL) && \
	g_xtid == (g_nrun == 1 ? SEL4(w_tid, g_irun) : 0L) && \
	g_xpid == (g_nrun == 1 ? SEL4(w_pid, g_irun) : 0L) && \
	g_xgid == (g_nrun == 1 ? SEL4(w_gid, g_irun) : 0L) && \
	g_xatype == (g_nact == 1 ? VALUE_INT64 : VALUE_NULL) && \
	g_xagid == (g_nact == 1 ? SEL4(w_gid, g_iact) : 0L))

/* log entry k (if any) is a write of the value the spec demands to one of the
 * five channels of this CPU */
#define LOG_OK(cpu, b, k) ((b) + (k) >= g_cs_n || \
	CS_ENTRY_IS((b) + (k), &(cpu)->chan[CPU_CHAN_TID],   g_x1type, g_xtid) || \
	CS_ENTRY_IS((b) + (k), &(cpu)->chan[CPU_CHAN_PID],   g_x1type, g_xpid) || \
	CS_ENTRY_IS((b) + (k), &(cpu)->chan[CPU_CHAN_THRUN], g_x1type, g_xgid) || \
	CS_ENTRY_IS((b) + (k), &(cpu)->chan[CPU_CHAN_NRUN],  VALUE_INT64, (long) g_nrun) || \
	CS_ENTRY_IS((b) + (k), &(cpu)->chan[CPU_CHAN_THACT], g_xatype, g_xagid))
/* no channel is written twice */
#define LOG_DISTINCT(b, j, k) ((b) + (k) >= g_cs_n || g_cs_chan[(b) + (j)] != g_cs_chan[(b) + (k)])
/* only the last write may have failed */
#define LOG_PREFIX_OK(b, k) ((b) + (k) + 1 >= g_cs_n || g_cs_ret[(b) + (k)] == 0)

/* ================= cpu_update: the strong, enforce-only contract ============ */
int c_cpu_update(struct cpu *cpu)
__CPROVER_requires(cpu == g_cpu && CPU_CHANS_CB_OK(cpu) && g_cs_n == 0 && g_cb_calls < 1000u && DIAG_PRE)
__CPROVER_requires(BIND_COUNTS(cpu, g_t, g_n))
__CPROVER_requires(w_n == g_n && w_virtual == cpu->is_virtual && BIND_ST_SCALARS)
__CPROVER_assigns(UPD_FRAME(cpu), UPD_LOG_FRAME, CS_FRAME)
__CPROVER_ensures(__CPROVER_return_value == 0 || __CPROVER_return_value == -1)
/* the counters are the number of running / active threads bound to the CPU */
__CPROVER_ensures(cpu->nth_running == (size_t) g_nrun && cpu->nth_active == (size_t) g_nact)
/* more than one running thread on a physical CPU: rejected, nothing reported */
__CPROVER_ensures(!g_oversub || (__CPROVER_return_value == -1 && g_cs_n == 0 &&
	g_err > __CPROVER_old(g_err) && cpu->th_running == __CPROVER_old(cpu->th_running)))
/* otherwise th_running is the unique running thread, or nothing */
__CPROVER_ensures(g_oversub || cpu->th_running == g_urun)
__CPROVER_ensures(__CPROVER_return_value != 0 || cpu->th_active == g_uact)
/* channel writes: at most one per channel, each carrying the demanded value
 * (NRUN = count, TID/PID/THRUN = the unique running thread or null) */
__CPROVER_ensures(g_cs_n <= 5 && LOG_OK(cpu, 0, 0) && LOG_OK(cpu, 0, 1) && LOG_OK(cpu, 0, 2) &&
	LOG_OK(cpu, 0, 3) && LOG_OK(cpu, 0, 4))
__CPROVER_ensures(LOG_DISTINCT(0, 0, 1) && LOG_DISTINCT(0, 0, 2) && LOG_DISTINCT(0, 0, 3) && LOG_DISTINCT(0, 0, 4) &&
	LOG_DISTINCT(0, 1, 2) && LOG_DISTINCT(0, 1, 3) && LOG_DISTINCT(0, 1, 4) &&
	LOG_DISTINCT(0, 2, 3) && LOG_DISTINCT(0, 2, 4) && LOG_DISTINCT(0, 3, 4))
__CPROVER_ensures(LOG_PREFIX_OK(0, 0) && LOG_PREFIX_OK(0, 1) && LOG_PREFIX_OK(0, 2) && LOG_PREFIX_OK(0, 3))
/* accepted exactly when not oversubscribed and all five channels were written */
__CPROVER_ensures((__CPROVER_return_value == 0) == (!g_oversub && g_cs_n == 5 && g_cs_ret[4] == 0))
/* a refusal without oversubscription is a failed channel write */
__CPROVER_ensures(__CPROVER_return_value == 0 || g_oversub ||
	(g_cs_n >= 1 && g_cs_ret[g_cs_n - 1] != 0 && g_err > __CPROVER_old(g_err)))
;

void h_cpu_update(void)
{
	g_with_proc = 1;
	g_cpu = mk_cpu(g_t, &g_n, C05_MAXN);
	chan_cb_t keep = stub_dirty_cb; (void) keep;
	WITNESS_OFF(chan_set);
	int r = cpu_update(g_cpu);
	int nrun = g_nrun;
	if (r == 0 && nrun == 0) REACH("update accepted, no running thread");
	if (r == 0 && nrun == 1 && w_n == C05_MAXN) REACH("update accepted, unique running thread, full list");
	if (r == 0 && nrun == C05_MAXN && C05_MAXN > 1) REACH("virtual cpu oversubscribed, accepted");
	if (r != 0 && nrun == 2 && !w_virtual) REACH("physical cpu with two running threads refused");
	if (r != 0 && nrun <= 1) REACH("refused because a channel write failed");
	if (r == 0 && w_n == 0) REACH("update of an empty cpu");
}

void h_cpu_update_r(void)
{
	g_with_proc = 1;
	g_cpu = mk_cpu(g_t, &g_n, C05_MAXN);
	chan_cb_t keep = stub_dirty_cb; (void) keep;
	WITNESS_OFF(chan_set);
	/* replay witnesses (cr_cpu_update binds none: it is self-contained) */
	w_n = g_n; w_virtual = g_cpu->is_virtual;
	w_st0 = g_n > 0 ? (int) g_t[0]->state : -1; w_st1 = g_n > 1 ? (int) g_t[1]->state : -1;
	w_st2 = g_n > 2 ? (int) g_t[2]->state : -1; w_st3 = g_n > 3 ? (int) g_t[3]->state : -1;
	int r = cpu_update(g_cpu);
	if (r == 0) REACH("update accepted");
	if (r != 0) REACH("update refused");
}

/* ================= membership: find / add / remove / migrate ================
 * e[0..len) is the thread list of cpu (utlist DL: head->prev is the tail,
 * tail->next is NULL).  The expected lists are computed by the harness. */
#define LINKED(e, j, len) ((j) + 1 >= (len) || ((e)[j]->cpu_next == (e)[(j) + 1] && (e)[(j) + 1]->cpu_prev == (e)[j]))
#define LIST_IS(cpu, e, len) ((len) == 0 ? (cpu)->threads == NULL : \
	((cpu)->threads == (e)[0] && (e)[0]->cpu_prev == (e)[(len) - 1] && (e)[(len) - 1]->cpu_next == NULL && \
	 LINKED(e, 0, len) && LINKED(e, 1, len) && LINKED(e, 2, len) && LINKED(e, 3, len)))

struct thread *g_e[5]; int g_elen;    /* expected list of g_cpu after the call */
struct thread *g_f[5]; int g_flen;    /* expected list of g_cpu2 after the call */

/* a thread that is in no list of the harness: its links are NULL (never bound)
 * or stale (utlist does not clear them on delete) */
static struct thread *mk_stale_thread(void)
{
	struct thread *t = mk_thread(NULL);
	struct thread *other = mk_thread(NULL);
	other->cpu_prev = other->cpu_next = NULL;
	switch (nondet_int()) {
	case 0: t->cpu_prev = NULL; break;
	case 1: t->cpu_prev = t; break;
	default: t->cpu_prev = other; break;
	}
	t->cpu_next = nondet_bool() ? NULL : other;
	return t;
}

/* g_cpu with its list, and the thread argument: g_t[g_sel] or a thread that
 * is not in the list (g_sel == g_n) */
static void mk_cpu_and_thread(void)
{
	g_with_proc = 0;
	g_cpu = mk_cpu(g_t, &g_n, C05_MAXN);
	g_sel = nondet_int();
	__CPROVER_assume(0 <= g_sel && g_sel <= g_n);
	g_th = (g_sel < g_n) ? g_t[g_sel] : mk_stale_thread();
}

/* ---------------- find_thread ---------------- */
struct thread *c_find_thread(struct cpu *cpu, struct thread *thread)
__CPROVER_requires(cpu == g_cpu && thread == g_th && w_n == g_n && w_sel == g_sel)
__CPROVER_assigns()
__CPROVER_ensures(__CPROVER_return_value == (g_sel < g_n ? thread : (struct thread *) NULL))
;

void h_find_thread(void)
{
	mk_cpu_and_thread();
	struct thread *r = find_thread(g_cpu, g_th);
	if (r != NULL && w_sel == C05_MAXN - 1) REACH("thread found at the tail of a full list");
	if (r == NULL && w_n == C05_MAXN) REACH("thread not in a full list");
	if (r == NULL && w_n == 0) REACH("empty list");
}

/* ---------------- cpu_add_thread ---------------- */
int c_cpu_add_thread(struct cpu *cpu, struct thread *thread)
__CPROVER_requires(cpu == g_cpu && thread == g_th && UPD_PRE(cpu, 5, 1000u) && g_cs_n == 0)
__CPROVER_requires(w_n == g_n && w_sel == g_sel && w_virtual == cpu->is_virtual)
__CPROVER_assigns(DIAG_FRAME)
__CPROVER_assigns(g_sel == g_n: APPEND_FRAME(cpu, thread), UPD_FRAME(cpu), UPD_LOG_FRAME, g_cb_calls, g_cb_ret)
__CPROVER_assigns(g_sel == g_n && cpu->threads != NULL: cpu->threads->cpu_prev, cpu->threads->cpu_prev->cpu_next)
__CPROVER_ensures(__CPROVER_return_value == 0 || __CPROVER_return_value == -1)
/* already bound to this CPU: refused, nothing touched (frame), no update */
__CPROVER_ensures(g_sel == g_n || (__CPROVER_return_value == -1 && g_err > __CPROVER_old(g_err)))
/* otherwise the thread becomes the tail of the list ... */
__CPROVER_ensures(g_sel != g_n || (LIST_IS(cpu, g_e, g_elen) && cpu->nthreads == (size_t) g_n + 1))
/* ... and the call succeeds exactly when the CPU update does */
__CPROVER_ensures(g_sel != g_n || ((__CPROVER_return_value == 0) == UPD_OK(cpu, 0)))
__CPROVER_ensures(__CPROVER_return_value == 0 || g_err > __CPROVER_old(g_err))
;

void h_cpu_add_thread(void)
{
	mk_cpu_and_thread();
	for (int i = 0; i < 5; i++) g_e[i] = g_t[i];
	g_e[g_n] = g_th; g_elen = g_n + 1;
	chan_cb_t keep = stub_dirty_cb; (void) keep;
	int r = cpu_add_thread(g_cpu, g_th);
	if (r == 0 && w_n == C05_MAXN) REACH("thread added to a full list");
	if (r == 0 && w_n == 0) REACH("thread added to an empty list");
	if (r != 0 && w_sel < w_n) REACH("thread already in the list refused");
	if (r != 0 && w_sel == w_n) REACH("added but the cpu update failed");
}

/* ---------------- cpu_remove_thread ---------------- */
int c_cpu_remove_thread(struct cpu *cpu, struct thread *thread)
__CPROVER_requires(cpu == g_cpu && thread == g_th && UPD_PRE(cpu, 5, 1000u) && g_cs_n == 0)
__CPROVER_requires(w_n == g_n && w_sel == g_sel && w_virtual == cpu->is_virtual)
__CPROVER_assigns(DIAG_FRAME)
__CPROVER_assigns(g_sel < g_n: DELETE_FRAME(cpu), UPD_FRAME(cpu), UPD_LOG_FRAME, g_cb_calls, g_cb_ret)
__CPROVER_assigns(g_sel < g_n && thread->cpu_next != NULL: thread->cpu_next->cpu_prev)
__CPROVER_assigns(g_sel < g_n && thread->cpu_prev != NULL: thread->cpu_prev->cpu_next)
__CPROVER_assigns(g_sel < g_n && cpu->threads != NULL: cpu->threads->cpu_prev)
__CPROVER_ensures(__CPROVER_return_value == 0 || __CPROVER_return_value == -1)
/* not bound to this CPU: refused, nothing touched (frame), no update */
__CPROVER_ensures(g_sel < g_n || (__CPROVER_return_value == -1 && g_err > __CPROVER_old(g_err)))
/* otherwise exactly that thread leaves the list, order of the others kept ... */
__CPROVER_ensures(g_sel >= g_n || (LIST_IS(cpu, g_e, g_elen) && cpu->nthreads == (size_t) g_n - 1))
/* ... and the call succeeds exactly when the CPU update does */
__CPROVER_ensures(g_sel >= g_n || ((__CPROVER_return_value == 0) == UPD_OK(cpu, 0)))
__CPROVER_ensures(__CPROVER_return_value == 0 || g_err > __CPROVER_old(g_err))
;

static void expect_removed(void)
{
	for (int j = 0; j < 5; j++)
		g_e[j] = (j < g_sel) ? g_t[j] : (j + 1 < 5 ? g_t[j + 1] : NULL);
	g_elen = g_n - 1;
}

void h_cpu_remove_thread(void)
{
	mk_cpu_and_thread();
	expect_removed();
	chan_cb_t keep = stub_dirty_cb; (void) keep;
	int r = cpu_remove_thread(g_cpu, g_th);
	if (r == 0 && w_n == C05_MAXN && w_sel == 0) REACH("head of a full list removed");
	if (r == 0 && w_n == C05_MAXN && w_sel == C05_MAXN - 1) REACH("tail of a full list removed");
	if (r == 0 && w_n == 1) REACH("only thread removed");
	if (r == 0 && w_n == 3 && w_sel == 1) REACH("middle thread removed");
	if (r != 0 && w_sel == w_n) REACH("thread not in the list refused");
	if (r != 0 && w_sel < w_n) REACH("removed but the cpu update failed");
}

/* ---------------- cpu_migrate_thread ---------------- */
/* strong, enforce-only: exact membership effect on both CPUs */
int c_cpu_migrate_thread(struct cpu *cpu, struct thread *thread, struct cpu *newcpu)
__CPROVER_requires(cpu == g_cpu && thread == g_th && newcpu == g_cpu2 && UPD_PRE(cpu, 10, 1000u) && CPU_CHANS_CB_OK(newcpu) && g_cs_n == 0)
__CPROVER_requires(w_n == g_n && w_m == g_m && w_sel == g_sel && w_virtual == cpu->is_virtual && w_virtual2 == newcpu->is_virtual)
__CPROVER_assigns(DIAG_FRAME)
__CPROVER_assigns(g_sel < g_n: CPU_BLOCK(cpu), CPU_CHANS_W(cpu), CPU_BLOCK(newcpu), CPU_CHANS_W(newcpu),
	thread->cpu_prev, thread->cpu_next, MIG_LOG_FRAME, g_cb_calls, g_cb_ret)
__CPROVER_assigns(g_sel < g_n && thread->cpu_next != NULL: thread->cpu_next->cpu_prev)
__CPROVER_assigns(g_sel < g_n && thread->cpu_prev != NULL: thread->cpu_prev->cpu_next)
__CPROVER_assigns(g_sel < g_n && cpu->threads != NULL: cpu->threads->cpu_prev)
__CPROVER_assigns(g_sel < g_n && newcpu->threads != NULL: newcpu->threads->cpu_prev, newcpu->threads->cpu_prev->cpu_next)
__CPROVER_ensures(__CPROVER_return_value == 0 || __CPROVER_return_value == -1)
/* not bound to the source CPU: refused, nothing touched (frame) */
__CPROVER_ensures(g_sel < g_n || (__CPROVER_return_value == -1 && g_err > __CPROVER_old(g_err)))
/* otherwise it leaves the source CPU, which is updated first ... */
__CPROVER_ensures(g_sel >= g_n || (LIST_IS(cpu, g_e, g_elen) && cpu->nthreads == (size_t) g_n - 1))
/* ... if that update fails the target CPU keeps its list and is not updated ... */
__CPROVER_ensures(g_sel >= g_n || (g_cs_n == 5 && g_cs_ret[0] == 0 && g_cs_ret[1] == 0 && g_cs_ret[2] == 0 && g_cs_ret[3] == 0 && g_cs_ret[4] == 0 && !(cpu->nth_running > 1 && !cpu->is_virtual)) || g_cs_n > 5 ||
	(__CPROVER_return_value == -1 && LIST_IS(newcpu, g_u, g_m) && newcpu->nthreads == (size_t) g_m &&
	 newcpu->nth_running == __CPROVER_old(newcpu->nth_running)))
/* ... else it becomes the tail of the target CPU's list, and the call
 * succeeds exactly when the update of the target CPU does */
__CPROVER_ensures(g_sel >= g_n || !(g_cs_n >= 5 && g_cs_ret[0] == 0 && g_cs_ret[1] == 0 && g_cs_ret[2] == 0 && g_cs_ret[3] == 0 && g_cs_ret[4] == 0 && !(cpu->nth_running > 1 && !cpu->is_virtual)) ||
	(LIST_IS(newcpu, g_f, g_flen) && newcpu->nthreads == (size_t) g_m + 1 &&
	 (__CPROVER_return_value == 0) == UPD_OK(newcpu, 5)))
__CPROVER_ensures(__CPROVER_return_value == 0 || g_err > __CPROVER_old(g_err))
;

void h_cpu_migrate_thread(void)
{
	mk_cpu_and_thread();
	expect_removed();
	g_cpu2 = mk_cpu(g_u, &g_m, C05_MAXM);
	for (int i = 0; i < 5; i++) g_f[i] = g_u[i];
	g_f[g_m] = g_th; g_flen = g_m + 1;
	g_cs_n = 0;
	chan_cb_t keep = stub_dirty_cb; (void) keep;
	/* replay witnesses (cr_cpu_migrate_thread binds none: it is self-contained) */
	w_n = g_n; w_m = g_m; w_sel = g_sel; w_virtual = g_cpu->is_virtual; w_virtual2 = g_cpu2->is_virtual;
	int r = cpu_migrate_thread(g_cpu, g_th, g_cpu2);
	if (r == 0) REACH("thread migrated");
	if (r != 0) REACH("migration refused");
}

void h_cpu_migrate_thread_c(void)
{
	mk_cpu_and_thread();
	expect_removed();
	g_cpu2 = mk_cpu(g_u, &g_m, C05_MAXM);
	for (int i = 0; i < 5; i++) g_f[i] = g_u[i];
	g_f[g_m] = g_th; g_flen = g_m + 1;
	chan_cb_t keep = stub_dirty_cb; (void) keep;
	int r = cpu_migrate_thread(g_cpu, g_th, g_cpu2);
	if (r == 0 && w_n == C05_MAXN && w_m == C05_MAXM) REACH("thread migrated between full lists");
	if (r == 0 && w_n == 1 && w_m == 0) REACH("only thread migrated to an empty cpu");
	if (r != 0 && w_sel == w_n) REACH("thread not on the source cpu refused");
	if (r != 0 && w_sel < w_n && g_cs_n <= 5) REACH("update of the source cpu failed");
	if (r != 0 && w_sel < w_n && g_cs_n > 5) REACH("update of the target cpu failed");
}
