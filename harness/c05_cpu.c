/* C05 -- CPU occupancy: cpu_update, find_thread, cpu_add_thread,
 * cpu_remove_thread, cpu_migrate_thread of the real cpu.c.
 *
 * The thread list of a CPU has no closed traversal invariant, so these groups
 * are BOUNDED: the harness builds a CPU whose list holds n <= C05_MAXN
 * individually allocated threads (arbitrary contents) linked with the real
 * DL_APPEND2 of utlist.h, exactly as cpu_add_thread links them.  The contract
 * texts themselves do not mention the bound. */
#include "prelude.h"
#include "chan.h"
#include "harness/c05_chanlog.h"   /* cr_chan_set, ghost log, chan_set call sites -> logged_chan_set */
#include "cpu.c"                    /* the real /repo/src/emu/cpu.c */

#ifndef C05_MAXN
#define C05_MAXN 3
#endif
_Static_assert(C05_MAXN >= 1 && C05_MAXN <= 4, "spec macros are written for at most 4 threads");

/* ---- harness-built heap, named by ghosts ---- */
struct cpu *g_cpu;            /* the CPU under test */
struct thread *g_t[5];        /* its threads in list order; NULL from g_n on */
int g_n;                      /* list length */
struct cpu *g_cpu2;           /* second CPU (migrate) */
struct thread *g_u[5];
int g_m;
struct thread *g_th;          /* thread argument of add/remove/migrate/find */
int g_sel;                    /* its position in g_t, or g_n if it is not in the list */

int w_n, w_m, w_sel, w_virtual, w_virtual2;
int w_st0, w_st1, w_st2, w_st3;

/* harness allocation: input objects exist (CBMC 6 lets malloc return NULL) */
static void *xalloc(size_t size)
{
	void *p = malloc(size);
	__CPROVER_assume(p != NULL);
	return p;
}

static struct thread *mk_thread(struct thread *share)
{
	struct thread *t = xalloc(sizeof(struct thread));   /* arbitrary contents */
	if (share != NULL && nondet_bool())
		t->proc = share->proc;                       /* threads of one process */
	else
		t->proc = xalloc(sizeof(struct proc));
	return t;
}

/* a CPU with arbitrary fields whose list holds n <= C05_MAXN threads */
static struct cpu *mk_cpu(struct thread **t, int *pn)
{
	struct cpu *cpu = xalloc(sizeof(struct cpu));
	int n = nondet_int();
	__CPROVER_assume(0 <= n && n <= C05_MAXN);
	cpu->threads = NULL;
	t[0] = t[1] = t[2] = t[3] = t[4] = NULL;
	if (n > 0) { t[0] = mk_thread(NULL); DL_APPEND2(cpu->threads, t[0], cpu_prev, cpu_next); }
	if (n > 1) { t[1] = mk_thread(t[0]); DL_APPEND2(cpu->threads, t[1], cpu_prev, cpu_next); }
	if (n > 2) { t[2] = mk_thread(t[0]); DL_APPEND2(cpu->threads, t[2], cpu_prev, cpu_next); }
	if (n > 3) { t[3] = mk_thread(t[0]); DL_APPEND2(cpu->threads, t[3], cpu_prev, cpu_next); }
	cpu->nthreads = (size_t) n;
	*pn = n;
	return cpu;
}

/* ---- counting spec over the harness-built list (threads are outside every
 * frame below, so their post-state fields are their pre-state fields) ---- */
#define T_RUN(t, n, i) ((i) < (n) && (t)[i]->state == TH_ST_RUNNING)
#define T_ACT(t, n, i) ((i) < (n) && ((t)[i]->state == TH_ST_RUNNING || \
		(t)[i]->state == TH_ST_COOLING || (t)[i]->state == TH_ST_WARMING))
#define NRUN(t, n) (T_RUN(t, n, 0) + T_RUN(t, n, 1) + T_RUN(t, n, 2) + T_RUN(t, n, 3))
#define NACT(t, n) (T_ACT(t, n, 0) + T_ACT(t, n, 1) + T_ACT(t, n, 2) + T_ACT(t, n, 3))
#define URUN(t, n) (T_RUN(t, n, 0) ? (t)[0] : T_RUN(t, n, 1) ? (t)[1] : T_RUN(t, n, 2) ? (t)[2] : T_RUN(t, n, 3) ? (t)[3] : (struct thread *) NULL)
#define UACT(t, n) (T_ACT(t, n, 0) ? (t)[0] : T_ACT(t, n, 1) ? (t)[1] : T_ACT(t, n, 2) ? (t)[2] : T_ACT(t, n, 3) ? (t)[3] : (struct thread *) NULL)

/* pre-state facts of the list, bound in ghosts by the enforce-only contracts
 * (keeps the clauses small: the counting terms are evaluated once) */
int g_nrun, g_nact, g_oversub;
struct thread *g_urun, *g_uact;
long g_x1type, g_xtid, g_xpid, g_xgid, g_xatype, g_xagid;
#define BIND_COUNTS(cpu, t, n) ( \
	g_nrun == NRUN(t, n) && g_nact == NACT(t, n) && g_oversub == (g_nrun > 1 && !(cpu)->is_virtual) && \
	g_urun == (g_nrun == 1 ? URUN(t, n) : (struct thread *) NULL) && \
	g_uact == (g_nact == 1 ? UACT(t, n) : (struct thread *) NULL) && \
	g_x1type == (g_nrun == 1 ? VALUE_INT64 : VALUE_NULL) && \
	g_xtid == (g_nrun == 1 ? (long) URUN(t, n)->tid : 0L) && \
	g_xpid == (g_nrun == 1 ? (long) URUN(t, n)->proc->pid : 0L) && \
	g_xgid == (g_nrun == 1 ? (long) URUN(t, n)->gindex : 0L) && \
	g_xatype == (g_nact == 1 ? VALUE_INT64 : VALUE_NULL) && \
	g_xagid == (g_nact == 1 ? (long) UACT(t, n)->gindex : 0L))

/* log entry k (if any) is a write of the value the spec demands to one of the
 * five channels of this CPU */
#define LOG_OK(cpu, b, k) ((b) + (k) >= g_cs_n || \
	CS_ENTRY_IS((b) + (k), &(cpu)->chan[CPU_CHAN_TID],   g_x1type, g_xtid) || \
	CS_ENTRY_IS((b) + (k), &(cpu)->chan[CPU_CHAN_PID],   g_x1type, g_xpid) || \
	CS_ENTRY_IS((b) + (k), &(cpu)->chan[CPU_CHAN_THRUN], g_x1type, g_xgid) || \
	CS_ENTRY_IS((b) + (k), &(cpu)->chan[CPU_CHAN_NRUN],  VALUE_INT64, (long) g_nrun) || \
	CS_ENTRY_IS((b) + (k), &(cpu)->chan[CPU_CHAN_THACT], g_xatype, g_xagid))
/* no channel is written twice */
#define LOG_DISTINCT(b, j, k) ((b) + (k) >= g_cs_n || g_cs_chan[(b) + (j)] != g_cs_chan[(b) + (k)])
/* only the last write may have failed */
#define LOG_PREFIX_OK(b, k) ((b) + (k) + 1 >= g_cs_n || g_cs_ret[(b) + (k)] == 0)

#define CPU_CHANS_CB_OK(cpu) (CB_OK(&(cpu)->chan[0]) && CB_OK(&(cpu)->chan[1]) && CB_OK(&(cpu)->chan[2]) && \
		CB_OK(&(cpu)->chan[3]) && CB_OK(&(cpu)->chan[4]))
#define LOG5(a, n) a[n], a[n + 1], a[n + 2], a[n + 3], a[n + 4]
#define UPD_LOG_FRAME g_cs_n, LOG5(g_cs_chan, g_cs_n), LOG5(g_cs_type, g_cs_n), LOG5(g_cs_i, g_cs_n), LOG5(g_cs_ret, g_cs_n)
#define CHAN_W(cpu, k) (cpu)->chan[k].data.value, (cpu)->chan[k].is_dirty
#define UPD_FRAME(cpu) (cpu)->nth_running, (cpu)->nth_active, (cpu)->th_running, (cpu)->th_active, \
		CHAN_W(cpu, 0), CHAN_W(cpu, 1), CHAN_W(cpu, 2), CHAN_W(cpu, 3), CHAN_W(cpu, 4)

/* ================= cpu_update: the strong, enforce-only contract ============ */
int c_cpu_update(struct cpu *cpu)
__CPROVER_requires(cpu == g_cpu && CPU_CHANS_CB_OK(cpu) && g_cs_n == 0 && g_cb_calls < 1000u && DIAG_PRE)
__CPROVER_requires(BIND_COUNTS(cpu, g_t, g_n))
__CPROVER_requires(w_n == g_n && w_virtual == cpu->is_virtual &&
	w_st0 == (g_n > 0 ? (int) g_t[0]->state : -1) && w_st1 == (g_n > 1 ? (int) g_t[1]->state : -1) &&
	w_st2 == (g_n > 2 ? (int) g_t[2]->state : -1) && w_st3 == (g_n > 3 ? (int) g_t[3]->state : -1))
__CPROVER_assigns(UPD_FRAME(cpu), UPD_LOG_FRAME, CS_FRAME)
__CPROVER_ensures(__CPROVER_return_value == 0 || __CPROVER_return_value == -1)
/* the counters are the number of running / active threads bound to the CPU */
__CPROVER_ensures(cpu->nth_running == (size_t) g_nrun && cpu->nth_active == (size_t) g_nact)
/* more than one running thread on a physical CPU: rejected, nothing reported */
__CPROVER_ensures(!g_oversub || (__CPROVER_return_value == -1 && g_cs_n == 0 &&
	g_err > __CPROVER_old(g_err) && cpu->th_running == __CPROVER_old(cpu->th_running)))
/* otherwise th_running is the unique running thread, or nothing */
__CPROVER_ensures(g_oversub || cpu->th_running == g_urun)
__CPROVER_ensures(__CPROVER_return_value != 0 || cpu->th_active == g_uact)
/* channel writes: at most one per channel, each carrying the demanded value
 * (NRUN = count, TID/PID/THRUN = the unique running thread or null) */
__CPROVER_ensures(g_cs_n <= 5 && LOG_OK(cpu, 0, 0) && LOG_OK(cpu, 0, 1) && LOG_OK(cpu, 0, 2) &&
	LOG_OK(cpu, 0, 3) && LOG_OK(cpu, 0, 4))
__CPROVER_ensures(LOG_DISTINCT(0, 0, 1) && LOG_DISTINCT(0, 0, 2) && LOG_DISTINCT(0, 0, 3) && LOG_DISTINCT(0, 0, 4) &&
	LOG_DISTINCT(0, 1, 2) && LOG_DISTINCT(0, 1, 3) && LOG_DISTINCT(0, 1, 4) &&
	LOG_DISTINCT(0, 2, 3) && LOG_DISTINCT(0, 2, 4) && LOG_DISTINCT(0, 3, 4))
__CPROVER_ensures(LOG_PREFIX_OK(0, 0) && LOG_PREFIX_OK(0, 1) && LOG_PREFIX_OK(0, 2) && LOG_PREFIX_OK(0, 3))
/* accepted exactly when not oversubscribed and all five channels were written */
__CPROVER_ensures((__CPROVER_return_value == 0) == (!g_oversub && g_cs_n == 5 && g_cs_ret[4] == 0))
/* a refusal without oversubscription is a failed channel write */
__CPROVER_ensures(__CPROVER_return_value == 0 || g_oversub ||
	(g_cs_n >= 1 && g_cs_ret[g_cs_n - 1] != 0 && g_err > __CPROVER_old(g_err)))
;

void h_cpu_update(void)
{
	g_cpu = mk_cpu(g_t, &g_n);
	chan_cb_t keep = stub_dirty_cb; (void) keep;
	WITNESS_OFF(chan_set);
	int r = cpu_update(g_cpu);
	int nrun = (w_st0 == TH_ST_RUNNING) + (w_st1 == TH_ST_RUNNING) + (w_st2 == TH_ST_RUNNING) + (w_st3 == TH_ST_RUNNING);
	if (r == 0 && nrun == 0) REACH("update accepted, no running thread");
	if (r == 0 && nrun == 1 && w_n == C05_MAXN) REACH("update accepted, unique running thread, full list");
	if (r == 0 && nrun == C05_MAXN && C05_MAXN > 1) REACH("virtual cpu oversubscribed, accepted");
	if (r != 0 && nrun == 2 && !w_virtual) REACH("physical cpu with two running threads refused");
	if (r != 0 && nrun <= 1) REACH("refused because a channel write failed");
	if (r == 0 && w_n == 0) REACH("update of an empty cpu");
}
