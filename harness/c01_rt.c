/* C01 / C02 (runtime side) / C10 (write path) -- contracts on the real src/rt/ovni.c
 *
 * Abstract state: the LOGICAL STREAM  L = file ++ evbuf[0 .. evlen)
 *   file   = bytes handed to write(2) so far (ghost g_file_len, observed cell g_byte)
 *   evbuf  = the thread's event buffer
 * L is observed at ONE arbitrary fixed position g_pos.  Every appending operation
 * gets three kinds of clauses, none of which needs a quantifier or a ghost binding,
 * so the same contract is enforced on the function AND replaces calls to it:
 *  - lengths: |L|' = |L| + (bytes appended), which part went to the file
 *  - exactness: g_pos in [|L|, |L|') ==> L'[g_pos] == the specified appended byte;
 *    appended bytes always still sit in the buffer in the post-state (a flush
 *    empties the buffer BEFORE the event is copied), so this reads post-state memory
 *  - preservation: HINV := g_pos < g_hlen ==> L[g_pos] == g_lbyte, where g_hlen <= |L|
 *    and g_lbyte are arbitrary ghost constants ("the first g_hlen bytes hold g_lbyte at
 *    g_pos"), required and ensured; bytes appended earlier in the same API call are
 *    preserved by the exact write frames (conditional __CPROVER_object_upto slices).
 * Because g_pos, g_hlen, g_lbyte are arbitrary, the clauses hold for every position. */
#ifdef VERIF_TRACK_WFAIL
/* write_evbuf may give up (die) ONLY after a write(2) that failed: a zero-byte write, a short write or any
 * successful result is never a reason to abort the traced program */
extern int g_wfail;
#define VERIF_DIE_HOOK __CPROVER_assert(g_wfail, "write_evbuf dies only after a write(2) that returned -1")
#endif
#include "rt_common.h"
/* errno after a failed write(2) is ARBITRARY (EINTR, EIO, ENOSPC, ...): the unit reads it as the ghost
 * verif_errno, a static that DFCC havocs before the checked function and that the write model never
 * sets -- so code that inspects errno to decide what to do with a failed write sees every value */
#undef errno
int verif_errno;
#define errno verif_errno
#include "ovni.c"

unsigned char g_lbyte;      /* the byte L holds at g_pos, for the first g_hlen bytes */
unsigned long g_hlen;       /* arbitrary: how much of L the name g_lbyte covers */
unsigned long g_clk_prev;   /* value of the last-but-one clock read */
unsigned long g_clk_prev2;  /* and the one before that */

#define L_LEN   (g_file_len + rthread.evlen)
#define L_BYTE  ((g_pos < g_file_len) ? g_byte : rthread.evbuf[g_pos - g_file_len])
#define HINV    (g_hlen <= L_LEN && (!(g_pos < g_hlen) || L_BYTE == g_lbyte))
#define BUF_OK  (CAP_OK && FILE_PRE && __CPROVER_is_fresh(rthread.evbuf, g_cap))
#define RT_WF   (BUF_OK && rthread.ready && rthread.evlen < g_cap && g_now < (1UL << 62))
/* the same, as separate clauses so a failing call-site precondition names the conjunct */
#define RT_WF_REQ \
__CPROVER_requires(CAP_OK) \
__CPROVER_requires(FILE_PRE_N(FPN)) \
__CPROVER_requires(__CPROVER_is_fresh(rthread.evbuf, g_cap)) \
__CPROVER_requires(rthread.ready) \
__CPROVER_requires(rthread.evlen < g_cap) \
__CPROVER_requires(g_now < (1UL << 62))

unsigned char g_src;     /* pre-state: byte of the source buffer that lands at g_pos */
unsigned long w_size, w_len0;
WITNESS(write_evbuf);
WITNESS(flush_evbuf);

/* write_evbuf: every byte of buf[0..size) is appended to the file, in order, for
 * every short-write pattern; returns only if no write failed (else die). */
void c_write_evbuf(uint8_t *buf, size_t size)
__CPROVER_requires(CAP_OK && FILE_PRE && size <= g_cap)
__CPROVER_requires(__CPROVER_is_fresh(buf, size))
__CPROVER_requires(WBIND(write_evbuf, w_size == size && w_len0 == g_file_len))
#ifdef VERIF_TRACK_WFAIL
__CPROVER_requires(g_wfail == 0)
__CPROVER_assigns(g_file_len, g_byte, g_died, g_wfail)
#else
__CPROVER_assigns(g_file_len, g_byte, g_died)
#endif
__CPROVER_ensures(g_file_len == __CPROVER_old(g_file_len) + size)
/* buf is outside the frame, so its post-state content is its pre-state content */
__CPROVER_ensures(!(g_pos >= __CPROVER_old(g_file_len) && g_pos < g_file_len) || g_byte == buf[g_pos - __CPROVER_old(g_file_len)])
__CPROVER_ensures((g_pos >= __CPROVER_old(g_file_len) && g_pos < g_file_len) || g_byte == __CPROVER_old(g_byte))
;

void h_write_evbuf(void)
{
	uint8_t *buf; size_t size;
	WITNESS_ON(write_evbuf);
	write_evbuf(buf, size);
	REACH("write_evbuf returns");
	if (w_size == 0) REACH("write_evbuf of zero bytes returns");
	if (g_pos >= w_len0 && g_pos < g_file_len) REACH("observer inside the written range");
	if (g_pos < w_len0) REACH("observer before the written range");
}

/* flush_evbuf: the whole buffer goes to the file, the buffer becomes empty */
unsigned long w_evlen;
void c_flush_evbuf(void)
__CPROVER_requires(CAP_OK && FILE_PRE && rthread.evlen <= g_cap)
__CPROVER_requires(__CPROVER_is_fresh(rthread.evbuf, g_cap))
__CPROVER_requires(WBIND(flush_evbuf, w_evlen == rthread.evlen && w_len0 == g_file_len))
__CPROVER_assigns(g_file_len, g_byte, g_died, rthread.evlen)
__CPROVER_ensures(g_file_len == __CPROVER_old(g_file_len) + __CPROVER_old(rthread.evlen) && rthread.evlen == 0)
__CPROVER_ensures(!(g_pos >= __CPROVER_old(g_file_len) && g_pos < g_file_len) || g_byte == rthread.evbuf[g_pos - __CPROVER_old(g_file_len)])
__CPROVER_ensures((g_pos >= __CPROVER_old(g_file_len) && g_pos < g_file_len) || g_byte == __CPROVER_old(g_byte))
;

void h_flush_evbuf(void)
{
	WITNESS_ON(flush_evbuf); WITNESS_OFF(write_evbuf);
	flush_evbuf();
	REACH("flush_evbuf returns");
	if (w_evlen > 0 && g_pos >= w_len0 && g_pos < g_file_len) REACH("observer inside the flushed range");
}

/* write_stream_header: on an empty stream, L becomes the documented 8-byte header */
#define HDR_BYTE(r) ((r) == 0 ? 'o' : (r) == 1 ? 'v' : (r) == 2 ? 'n' : (r) == 3 ? 'i' : (r) == 4 ? 1 : 0)
void c_write_stream_header(void)
__CPROVER_requires(BUF_OK && g_file_len == 0)
__CPROVER_assigns(g_file_len, g_byte, g_died, rthread.evlen, __CPROVER_object_upto(rthread.evbuf, 8))
__CPROVER_ensures(g_file_len == 8 && rthread.evlen == 0)
__CPROVER_ensures(!(g_pos < 8) || g_byte == HDR_BYTE(g_pos))
;
void h_write_stream_header(void)
{
	WITNESS_OFF(flush_evbuf);
	write_stream_header();
	REACH("write_stream_header returns");
	if (g_pos == 4) REACH("observer on the version field");
}

/* ------------------------------------------------------------------ events */
/* payload size encoded in the low nibble n: 0 -> 0 bytes, n>0 -> n+1 bytes (no ?: so it can be used in assigns conditions) */
#define EV_PSIZE(f) (((f) & 0x0f) + (((f) & 0x0f) != 0))
#define EV_SIZE(f)  (12 + EV_PSIZE(f))
#define EV_OK(ev)   (__CPROVER_is_fresh(ev, sizeof(struct ovni_ev)))

/* ovni_payload_size / ovni_ev_size against the trace specification */
int c_ovni_payload_size(const struct ovni_ev *ev)
__CPROVER_requires(EV_OK(ev))
__CPROVER_requires(!(ev->header.flags & OVNI_EV_JUMBO) || ev->payload.jumbo.size <= 0x7fffffefu)
__CPROVER_assigns()
__CPROVER_ensures((ev->header.flags & OVNI_EV_JUMBO) ?
	(long) __CPROVER_return_value == 4 + (long) ev->payload.jumbo.size :
	__CPROVER_return_value == EV_PSIZE(ev->header.flags))
__CPROVER_ensures(__CPROVER_return_value == 0 || __CPROVER_return_value >= 2)
;
void h_ovni_payload_size(void)
{
	const struct ovni_ev *ev;
	int r = ovni_payload_size(ev);
	if (r == 0) REACH("empty payload");
	if (r == 16) REACH("full normal payload");
	if (r > 16) REACH("jumbo payload");
}

int c_ovni_ev_size(const struct ovni_ev *ev)
__CPROVER_requires(EV_OK(ev))
__CPROVER_requires(!(ev->header.flags & OVNI_EV_JUMBO) || ev->payload.jumbo.size <= 0x7fffffefu)
__CPROVER_assigns()
__CPROVER_ensures((ev->header.flags & OVNI_EV_JUMBO) ?
	(long) __CPROVER_return_value == 16 + (long) ev->payload.jumbo.size :
	__CPROVER_return_value == EV_SIZE(ev->header.flags))
;
void h_ovni_ev_size(void)
{
	const struct ovni_ev *ev;
	int r = ovni_ev_size(ev);
	if (r == 12) REACH("header-only event");
	if (r == 28) REACH("largest normal event");
}

/* ovni_payload_add: returns (does not die) iff not jumbo, size >= 2 and it fits in
 * 16 bytes; then payload[old .. old+size) == buf, earlier payload bytes and the
 * header (except the size nibble) are unchanged, new size == old + size. */
#define PAYCELL(k) (!((k) < size) || ev->payload.u8[g_opsz + (k)] == buf[(k)])
int g_opsz;    /* enforce-only binding of the old payload size */
unsigned char g_oflags;
unsigned g_pk; unsigned char g_pold;  /* observer on an old payload byte */
WITNESS(ovni_payload_add);
void c_ovni_payload_add(struct ovni_ev *ev, const uint8_t *buf, int size)
__CPROVER_requires(EV_OK(ev) && (size < 0 || size > 16 || __CPROVER_is_fresh(buf, size)))
__CPROVER_requires(g_opsz == EV_PSIZE(ev->header.flags) && g_oflags == ev->header.flags)
__CPROVER_requires(g_pk < 16 && g_pold == ev->payload.u8[g_pk])
__CPROVER_assigns(g_died, ev->header.flags, ev->payload)
__CPROVER_ensures(!(g_oflags & OVNI_EV_JUMBO) && size >= 2 && g_opsz + size <= 16)
__CPROVER_ensures(EV_PSIZE(ev->header.flags) == g_opsz + size)
__CPROVER_ensures((ev->header.flags & 0xf0) == (g_oflags & 0xf0))
__CPROVER_ensures(PAYCELL(0) && PAYCELL(1) && PAYCELL(2) && PAYCELL(3) && PAYCELL(4) && PAYCELL(5) && PAYCELL(6) && PAYCELL(7))
__CPROVER_ensures(PAYCELL(8) && PAYCELL(9) && PAYCELL(10) && PAYCELL(11) && PAYCELL(12) && PAYCELL(13) && PAYCELL(14) && PAYCELL(15))
__CPROVER_ensures(!(g_pk < (unsigned) g_opsz) || ev->payload.u8[g_pk] == g_pold)
;
int w_pa_size, w_pa_flags;
void h_ovni_payload_add(void)
{
	struct ovni_ev *ev; const uint8_t *buf; int size;
	ovni_payload_add(ev, buf, size);
	REACH("payload_add returns");
	if (g_opsz == 0 && size == 16) REACH("16 bytes added at once");
	if (g_opsz == 8 && size == 4) REACH("second argument appended");
	if (g_opsz == 14 && size == 2) REACH("payload filled to the limit");
}
/* and it DIES in every other case: the returning REACH above plus this: a call that
 * violates the acceptance condition never returns */
void h_ovni_payload_add_dies(void)
{
	struct ovni_ev ev; uint8_t buf[32]; int size;
	int psz = EV_PSIZE(ev.header.flags);
	int ok = !(ev.header.flags & OVNI_EV_JUMBO) && size >= 2 && (long) psz + (long) size <= 16;
	__CPROVER_assume(size <= 32);
	if (!ok) {
		REACH("illegal payload_add attempted");
		ovni_payload_add(&ev, buf, size);
		VASSERT(0, "ovni_payload_add must die on jumbo / size < 2 / overflow of 16 bytes");
	}
}


/* ------------------------------------------------- appending to the stream */
/* Clock: ovni_clock_now() returns the (non-decreasing) ghost clock.  ASSUMED
 * contract (trusted: CLOCK_MONOTONIC and the ns conversion sec*1e9+nsec, whose
 * monotonicity is a multiplication fact no installed back end decides). */
uint64_t cr_ovni_clock_now(void)
__CPROVER_requires(g_now < (1UL << 62))
__CPROVER_assigns(g_now, g_clk_prev, g_clk_prev2, g_died)
__CPROVER_ensures(__CPROVER_return_value == g_now && g_now >= __CPROVER_old(g_now) && g_now < (1UL << 62))
__CPROVER_ensures(g_clk_prev == __CPROVER_old(g_now) && g_clk_prev2 == __CPROVER_old(g_clk_prev))
;

/* byte k of a flush marker event {flags=0,'O','F',v, clock t (little endian)} */
#define MARK_BYTE(k, v, t) ((k) == 0 ? 0UL : (k) == 1 ? (unsigned long) 'O' : (k) == 2 ? (unsigned long) 'F' : \
	(k) == 3 ? (unsigned long) (v) : (((t) >> (8 * ((k) - 4))) & 0xffUL))
#define OLD_LLEN (__CPROVER_old(g_file_len) + __CPROVER_old(rthread.evlen))
#define IN_APP(len) (g_pos >= OLD_LLEN && g_pos - OLD_LLEN < (len))

/* add_flush_events(t0,t1): appends exactly OF[ (clock t0) then OF] (clock t1);
 * needs room for both so that neither append flushes again (no nested flush). */
#define FE_APP(r) ((r) < 12 ? MARK_BYTE((r), '[', t0) : MARK_BYTE((r) - 12, ']', t1))
#define FPN 62
void cr_add_flush_events(uint64_t t0, uint64_t t1)
RT_WF_REQ
__CPROVER_requires(rthread.evlen + 24 < g_cap)
__CPROVER_requires(HINV)
__CPROVER_assigns(rthread.evlen, g_died, __CPROVER_object_upto(rthread.evbuf + rthread.evlen, 24))
__CPROVER_ensures(rthread.evlen == __CPROVER_old(rthread.evlen) + 24)
__CPROVER_ensures(!IN_APP(24) || (unsigned long) L_BYTE == FE_APP(g_pos - OLD_LLEN))
__CPROVER_ensures(HINV)
;

/* ovni_ev_add(ev): appends exactly the bytes of *ev; if that would fill the buffer
 * (evlen + size >= capacity) the buffer is flushed FIRST and the two flush markers
 * follow the event; never otherwise.  The buffer is never full afterwards. */
#define EA_SZ        ((unsigned long) EV_SIZE(ev->header.flags))
#define EA_WILLFLUSH (rthread.evlen + EA_SZ >= g_cap)                       /* pre-state */
#define EA_FLUSHED   (__CPROVER_old(rthread.evlen) + EA_SZ >= g_cap)        /* same, in ensures */
#define EA_APPLEN    (EA_SZ + (EA_FLUSHED ? 24UL : 0UL))
#define EA_APP(r)    ((r) < EA_SZ ? (unsigned long) ((const unsigned char *) ev)[(r)] : \
	(r) < EA_SZ + 12 ? MARK_BYTE((r) - EA_SZ, '[', g_clk_prev) : MARK_BYTE((r) - EA_SZ - 12, ']', g_now))
#define EA_CONTRACT \
RT_WF_REQ \
__CPROVER_requires(EV_OK(ev) && !(ev->header.flags & OVNI_EV_JUMBO)) \
/* only a flushing call needs headroom for the flushed bytes */ \
__CPROVER_requires(g_file_len < (1UL << 61) || !EA_WILLFLUSH) \
__CPROVER_requires(HINV) \
__CPROVER_assigns(rthread.evlen, g_died) \
__CPROVER_assigns(!EA_WILLFLUSH: __CPROVER_object_upto(rthread.evbuf + rthread.evlen, EA_SZ)) \
__CPROVER_assigns(EA_WILLFLUSH: g_file_len, g_byte, g_now, g_clk_prev, g_clk_prev2, __CPROVER_object_upto(rthread.evbuf, EA_SZ + 24)) \
__CPROVER_ensures(g_file_len + rthread.evlen == OLD_LLEN + EA_APPLEN) \
__CPROVER_ensures(g_file_len == __CPROVER_old(g_file_len) + (EA_FLUSHED ? __CPROVER_old(rthread.evlen) : 0UL)) \
__CPROVER_ensures(rthread.evlen < g_cap) \
__CPROVER_ensures(!IN_APP(EA_APPLEN) || (unsigned long) L_BYTE == EA_APP(g_pos - OLD_LLEN)) \
__CPROVER_ensures(HINV) \
/* clocks: markers carry the two clock reads taken around the flush */ \
__CPROVER_ensures(!EA_FLUSHED || (__CPROVER_old(g_now) <= g_clk_prev && g_clk_prev <= g_now && g_now < (1UL << 62) && g_clk_prev2 == __CPROVER_old(g_now)))

void cr_ovni_ev_add(struct ovni_ev *ev)
EA_CONTRACT
;

unsigned long w_cap, w_evlen0, w_flen0; unsigned char w_flags;
WITNESS(ovni_ev_add);
/* enforce-only twin: the same contract plus the witness bindings for replay */
void c_ovni_ev_add(struct ovni_ev *ev)
EA_CONTRACT
__CPROVER_requires(WBIND(ovni_ev_add, w_cap == g_cap && w_evlen0 == rthread.evlen && w_flen0 == g_file_len && w_flags == ev->header.flags))
;

void h_ovni_ev_add(void)
{
	struct ovni_ev *ev;
	WITNESS_ON(ovni_ev_add); WITNESS_OFF(flush_evbuf);
	ovni_ev_add(ev);
	REACH("ovni_ev_add returns");
	int flushed = w_evlen0 + EV_SIZE(w_flags) >= w_cap;
	if (flushed) REACH("ovni_ev_add flushed first");
	if (!flushed) REACH("ovni_ev_add did not flush");
	if (w_evlen0 + EV_SIZE(w_flags) == w_cap) REACH("event ends exactly at the capacity boundary");
	if (w_evlen0 + EV_SIZE(w_flags) == w_cap - 1) REACH("event ends one byte before the boundary");
	if (w_cap == (unsigned long) REAL_MAX_EV_BUF) REACH("the real 2 MiB capacity is admitted");
	if (flushed && g_pos >= w_flen0 + w_evlen0 + EV_SIZE(w_flags) + 12) REACH("observer on the OF] marker");
	if (!flushed && g_pos >= w_flen0 + w_evlen0 && g_pos < w_flen0 + w_evlen0 + EV_SIZE(w_flags)) REACH("observer inside the appended event");
	if (g_pos < g_hlen && g_pos >= w_flen0) REACH("observer on an earlier buffered byte");
	if (g_pos < g_hlen && g_pos < w_flen0) REACH("observer on an earlier file byte");
}

void h_add_flush_events(void)
{
	uint64_t t0, t1;
	add_flush_events(t0, t1);
	REACH("add_flush_events returns");
	if (g_pos >= g_file_len + rthread.evlen - 12 && g_pos < g_file_len + rthread.evlen) REACH("observer on the second marker");
	if (g_pos < g_hlen) REACH("observer on an earlier byte");
}

/* ------------------------------------------------------------ jumbo events */
/* replaceable contract of ovni_payload_add (no ghost bindings): enforced in its own group */
#define PAYCELL_R(k) (!((k) < size) || ev->payload.u8[EV_PSIZE(__CPROVER_old(ev->header.flags)) + (k)] == buf[(k)])
void cr_ovni_payload_add(struct ovni_ev *ev, const uint8_t *buf, int size)
__CPROVER_requires(EV_OK(ev) && (size < 0 || size > 16 || __CPROVER_is_fresh(buf, size)))
__CPROVER_assigns(g_died, ev->header.flags, ev->payload)
__CPROVER_ensures(!(__CPROVER_old(ev->header.flags) & OVNI_EV_JUMBO) && size >= 2 && EV_PSIZE(__CPROVER_old(ev->header.flags)) + size <= 16)
__CPROVER_ensures(EV_PSIZE(ev->header.flags) == EV_PSIZE(__CPROVER_old(ev->header.flags)) + size)
__CPROVER_ensures((ev->header.flags & 0xf0) == (__CPROVER_old(ev->header.flags) & 0xf0))
__CPROVER_ensures(PAYCELL_R(0) && PAYCELL_R(1) && PAYCELL_R(2) && PAYCELL_R(3) && PAYCELL_R(4) && PAYCELL_R(5) && PAYCELL_R(6) && PAYCELL_R(7))
__CPROVER_ensures(PAYCELL_R(8) && PAYCELL_R(9) && PAYCELL_R(10) && PAYCELL_R(11) && PAYCELL_R(12) && PAYCELL_R(13) && PAYCELL_R(14) && PAYCELL_R(15))
/* earlier payload bytes are kept (observer g_pk) */
__CPROVER_ensures(!((g_pk & 15u) < (unsigned) EV_PSIZE(__CPROVER_old(ev->header.flags))) || ev->payload.u8[g_pk & 15u] == __CPROVER_old(ev->payload.u8[g_pk & 15u]))
;
void h_cr_ovni_payload_add(void)
{
	struct ovni_ev *ev; const uint8_t *buf; int size;
	ovni_payload_add(ev, buf, size);
	REACH("payload_add returns");
	if (size == 4) REACH("four bytes added");
}

/* memcpy: ASSUMED contract (trusted: libc memcpy copies n bytes, regions disjoint),
 * stated as the instance of  forall k<n. dst[k]==src[k]  at the cell of evbuf that
 * holds stream position g_pos -- the only cell the stream contracts observe. */
#define OBS_IN(dst, n) (__CPROVER_same_object((dst), rthread.evbuf) && g_pos >= g_file_len && \
	g_pos - g_file_len >= (unsigned long) __CPROVER_POINTER_OFFSET(dst) && \
	g_pos - g_file_len - (unsigned long) __CPROVER_POINTER_OFFSET(dst) < (n))
void *cr_memcpy(void *dst, const void *src, size_t n)
__CPROVER_requires(n == 0 || (__CPROVER_is_fresh(dst, n) && __CPROVER_is_fresh(src, n)))
__CPROVER_assigns(__CPROVER_object_upto(dst, n))
__CPROVER_ensures(__CPROVER_return_value == dst)
__CPROVER_ensures(!OBS_IN(dst, n) || rthread.evbuf[g_pos - g_file_len] ==
	((const unsigned char *) src)[g_pos - g_file_len - (unsigned long) __CPROVER_POINTER_OFFSET(dst)])
;

/* ovni_ev_add_jumbo(ev, buf, n): returns only if the event, its data and the two
 * flush markers fit (16 + n + 24 < capacity) and ev had no payload; appends
 * {flags|jumbo|size nibble 3, mcv, clock, u32 n} ++ buf[0..n), flushing first (and then
 * adding the markers after the data) exactly when evlen + 16 + n >= capacity. */
#define JB_TOTAL     (16UL + (unsigned long) bufsize)
#define JB_WILLFLUSH (rthread.evlen + JB_TOTAL >= g_cap)
#define JB_FLUSHED   (__CPROVER_old(rthread.evlen) + JB_TOTAL >= g_cap)
#define JB_APPLEN    (JB_TOTAL + (JB_FLUSHED ? 24UL : 0UL))
#define JB_APP(r) ((r) == 0 ? (unsigned long) ((__CPROVER_old(ev->header.flags) & 0xf0) | 0x13) : \
	(r) < 12 ? (unsigned long) ((const unsigned char *) ev)[(r)] : \
	(r) < 16 ? (((unsigned long) bufsize >> (8 * ((r) - 12))) & 0xffUL) : \
	(r) < JB_TOTAL ? (unsigned long) buf[(r) - 16] : \
	(r) < JB_TOTAL + 12 ? MARK_BYTE((r) - JB_TOTAL, '[', g_clk_prev) : MARK_BYTE((r) - JB_TOTAL - 12, ']', g_now))
#define JB_CONTRACT \
RT_WF_REQ \
__CPROVER_requires(EV_OK(ev) && !(ev->header.flags & OVNI_EV_JUMBO) && bufsize <= (unsigned long) REAL_MAX_EV_BUF && (bufsize == 0 || __CPROVER_is_fresh(buf, bufsize))) \
__CPROVER_requires(g_file_len < (1UL << 61)) \
__CPROVER_requires(HINV) \
__CPROVER_assigns(rthread.evlen, g_died, ev->header.flags, ev->payload) \
__CPROVER_assigns(!JB_WILLFLUSH: __CPROVER_object_upto(rthread.evbuf + rthread.evlen, JB_TOTAL)) \
__CPROVER_assigns(JB_WILLFLUSH: g_file_len, g_byte, g_now, g_clk_prev, g_clk_prev2) \
__CPROVER_assigns(JB_WILLFLUSH && JB_TOTAL + 24 < g_cap: __CPROVER_object_upto(rthread.evbuf, JB_TOTAL + 24)) \
__CPROVER_ensures((__CPROVER_old(ev->header.flags) & 0x1f) == 0 && JB_TOTAL + 24 < g_cap) \
__CPROVER_ensures(g_file_len + rthread.evlen == OLD_LLEN + JB_APPLEN) \
__CPROVER_ensures(g_file_len == __CPROVER_old(g_file_len) + (JB_FLUSHED ? __CPROVER_old(rthread.evlen) : 0UL)) \
__CPROVER_ensures(rthread.evlen < g_cap) \
__CPROVER_ensures(!IN_APP(JB_APPLEN) || (unsigned long) L_BYTE == JB_APP(g_pos - OLD_LLEN)) \
__CPROVER_ensures(HINV) \
__CPROVER_ensures(!JB_FLUSHED || (__CPROVER_old(g_now) <= g_clk_prev && g_clk_prev <= g_now && g_now < (1UL << 62)))

void cr_ovni_ev_add_jumbo(struct ovni_ev *ev, const uint8_t *buf, uint32_t bufsize)
JB_CONTRACT
;
unsigned w_bufsize;
WITNESS(ovni_ev_add_jumbo);
/* The enforce-only twin is proved in two groups that split the input space
 * exhaustively (-DJB_CASE=1: the call flushes first; -DJB_CASE=0: it does not) */
#ifndef JB_CASE
#define JB_SPLIT 1
#elif JB_CASE == 1
#define JB_SPLIT JB_WILLFLUSH
#else
#define JB_SPLIT (!JB_WILLFLUSH)
#endif
void c_ovni_ev_add_jumbo(struct ovni_ev *ev, const uint8_t *buf, uint32_t bufsize)
JB_CONTRACT
__CPROVER_requires(JB_SPLIT)
__CPROVER_requires(WBIND(ovni_ev_add_jumbo, w_cap == g_cap && w_evlen0 == rthread.evlen && w_flen0 == g_file_len && w_flags == ev->header.flags && w_bufsize == bufsize))
;
void h_ovni_ev_add_jumbo(void)
{
	struct ovni_ev *ev; const uint8_t *buf; uint32_t bufsize;
	WITNESS_ON(ovni_ev_add_jumbo); WITNESS_OFF(flush_evbuf);
	ovni_ev_add_jumbo(ev, buf, bufsize);
	unsigned long total = 16UL + w_bufsize;
	int flushed = w_evlen0 + total >= w_cap;
	/* few REACH points: each failing assertion is a SAT call on a big formula */
#if !defined(JB_CASE) || JB_CASE == 0
	if (!flushed && w_bufsize == 0) REACH("jumbo with no data, no flush");
	if (!flushed && g_pos >= w_flen0 + w_evlen0 + 16 && g_pos < w_flen0 + w_evlen0 + total) REACH("observer inside the jumbo data");
#endif
#if !defined(JB_CASE) || JB_CASE == 1
	if (flushed && total + 24 == w_cap - 1 && w_cap == (unsigned long) REAL_MAX_EV_BUF) REACH("largest admitted jumbo at the real 2 MiB capacity, flushed first");
	if (flushed && g_pos >= w_flen0 + w_evlen0 + total) REACH("observer on the markers after the jumbo");
#endif
}

/* --------------------------------------------------------------- public API */
/* ovni_ev_emit / ovni_ev_jumbo_emit: the API entry points carry the same contracts */
void c_ovni_ev_emit(struct ovni_ev *ev)
EA_CONTRACT
;
void h_ovni_ev_emit(void)
{
	struct ovni_ev *ev;
	ovni_ev_emit(ev);
	REACH("ovni_ev_emit returns");
}
void c_ovni_ev_jumbo_emit(struct ovni_ev *ev, const uint8_t *buf, uint32_t bufsize)
JB_CONTRACT
;
void h_ovni_ev_jumbo_emit(void)
{
	struct ovni_ev *ev; const uint8_t *buf; uint32_t bufsize;
	ovni_ev_jumbo_emit(ev, buf, bufsize);
	REACH("ovni_ev_jumbo_emit returns");
}

/* ovni_flush: afterwards every byte L had is in the FILE, and L has grown by exactly
 * the pair OF[ (clock read before the write) OF] (clock read after it), which sit in
 * the buffer; requires an initialised thread and a READY process (else dies). */
#define FL_APP(r) ((r) < 12 ? MARK_BYTE((r), '[', g_clk_prev) : MARK_BYTE((r) - 12, ']', g_now))
void c_ovni_flush(void)
__CPROVER_requires(CAP_OK && FILE_PRE_N(60) && __CPROVER_is_fresh(rthread.evbuf, g_cap))
__CPROVER_requires(rthread.evlen < g_cap && g_now < (1UL << 62))
__CPROVER_requires(HINV)
__CPROVER_assigns(rthread.evlen, g_died, g_file_len, g_byte, g_now, g_clk_prev, g_clk_prev2, __CPROVER_object_upto(rthread.evbuf, 24))
__CPROVER_ensures(rthread.ready && rproc.st == ST_READY)
__CPROVER_ensures(g_file_len == OLD_LLEN && rthread.evlen == 24)
__CPROVER_ensures(!IN_APP(24) || (unsigned long) L_BYTE == FL_APP(g_pos - OLD_LLEN))
__CPROVER_ensures(HINV)
__CPROVER_ensures(__CPROVER_old(g_now) <= g_clk_prev && g_clk_prev <= g_now)
;
void h_ovni_flush(void)
{
	WITNESS_OFF(flush_evbuf);
	ovni_flush();
	REACH("ovni_flush returns");
	if (g_pos >= g_file_len && g_pos < g_file_len + 24) REACH("observer on the flush markers");
	if (g_pos < g_hlen) REACH("observer on a byte flushed to the file");
}

/* ovni_mark_push/pop/set: die iff value == 0; otherwise append exactly one event
 * {payload 12 bytes, 'O','M',<op>, clock = a fresh clock read, i64 value, i32 type} */
#define LE_BYTE(x, k) ((((unsigned long) (x)) >> (8 * (k))) & 0xffUL)
#define MK_FLUSHED  (__CPROVER_old(rthread.evlen) + 24UL >= g_cap)
#define MK_WILLFLUSH (rthread.evlen + 24UL >= g_cap)
#define MK_CLK      (MK_FLUSHED ? g_clk_prev2 : g_now)
#define MK_APPLEN   (24UL + (MK_FLUSHED ? 24UL : 0UL))
#define MK_APP(r, op) ((r) == 0 ? 0x0bUL : (r) == 1 ? (unsigned long) 'O' : (r) == 2 ? (unsigned long) 'M' : (r) == 3 ? (unsigned long) (op) : \
	(r) < 12 ? LE_BYTE(MK_CLK, (r) - 4) : (r) < 20 ? (unsigned long) ((value >> (8 * ((r) - 12))) & 0xffL) : \
	(r) < 24 ? (unsigned long) ((type >> (8 * ((r) - 20))) & 0xff) : \
	(r) < 36 ? MARK_BYTE((r) - 24, '[', g_clk_prev) : MARK_BYTE((r) - 36, ']', g_now))
#define MK_CONTRACT(op) \
__CPROVER_requires(CAP_OK && FILE_PRE_N(60) && __CPROVER_is_fresh(rthread.evbuf, g_cap)) \
__CPROVER_requires(rthread.ready && rthread.evlen < g_cap && g_now < (1UL << 62)) \
__CPROVER_requires(HINV) \
__CPROVER_assigns(rthread.evlen, g_died, g_now, g_clk_prev, g_clk_prev2) \
__CPROVER_assigns(!MK_WILLFLUSH: __CPROVER_object_upto(rthread.evbuf + rthread.evlen, 24)) \
__CPROVER_assigns(MK_WILLFLUSH: g_file_len, g_byte, __CPROVER_object_upto(rthread.evbuf, 48)) \
__CPROVER_ensures(value != 0) \
__CPROVER_ensures(g_file_len + rthread.evlen == OLD_LLEN + MK_APPLEN && rthread.evlen < g_cap) \
__CPROVER_ensures(!IN_APP(MK_APPLEN) || (unsigned long) L_BYTE == MK_APP(g_pos - OLD_LLEN, op)) \
__CPROVER_ensures(HINV) \
__CPROVER_ensures(MK_CLK >= __CPROVER_old(g_now) && MK_CLK <= g_now)

void c_ovni_mark_push(int32_t type, int64_t value) MK_CONTRACT('[');
void c_ovni_mark_pop(int32_t type, int64_t value) MK_CONTRACT(']');
void c_ovni_mark_set(int32_t type, int64_t value) MK_CONTRACT('=');
unsigned long w_mk_evlen; long w_mk_value; int w_mk_type;
void h_ovni_mark_push(void)
{
	int32_t type; int64_t value;
	ovni_mark_push(type, value);
	REACH("ovni_mark_push returns");
	if (g_pos >= g_file_len && g_pos - g_file_len < rthread.evlen) REACH("observer in the buffer");
}
void h_ovni_mark_pop(void)
{
	int32_t type; int64_t value;
	ovni_mark_pop(type, value);
	REACH("ovni_mark_pop returns");
}
void h_ovni_mark_set(void)
{
	int32_t type; int64_t value;
	ovni_mark_set(type, value);
	REACH("ovni_mark_set returns");
}
/* the die direction: value == 0 never returns */
void h_ovni_mark_zero_dies(void)
{
	int32_t type; int which;
	REACH("mark with value 0 attempted");
	if (which == 0) ovni_mark_push(type, 0);
	else if (which == 1) ovni_mark_pop(type, 0);
	else ovni_mark_set(type, 0);
	VASSERT(0, "ovni_mark_push/pop/set must die on value 0");
}
