/* C19 -- nosv/event.c and nanos6/event.c (-DC19_NANOS6): the handlers that read task
 * ids and the type label from the payload -- update_task_state, create_task, pre_type --
 * under EMU_EV_WF only.  task.c functions are most general stubs that record what the
 * handler took from the payload; memcpy/memchr are rebound to wrappers that check every
 * read from the payload object byte-exactly against payload_size. */
#include "prelude.h"
#include "emu_ev.h"

/* ---- byte-exact read checks for library reads from the payload ---- */
const uint8_t *g_payload; unsigned long g_psize;   /* bound in requires */
#define IN_PAYLOAD(p, n) (!__CPROVER_same_object((p), g_payload) || \
	((const uint8_t *) (p) >= g_payload && (n) <= g_psize && \
	 (unsigned long) ((const uint8_t *) (p) - g_payload) <= g_psize - (n)))
static inline void *c19_memcpy(void *d, const void *s, size_t n)
{
	__CPROVER_assert(IN_PAYLOAD(s, n), "memcpy source inside payload[0..payload_size)");
	return (memcpy)(d, s, n);
}
const void *g_memchr_s; unsigned long g_memchr_n; int g_memchr_hit; unsigned g_memchr_calls;
/* TRUSTED libc model: checks the range is readable, returns NULL or a position that holds c */
static inline void *c19_memchr(const void *s, int c, size_t n)
{
	__CPROVER_assert(__CPROVER_r_ok(s, n), "memchr range readable");
	__CPROVER_assert(IN_PAYLOAD(s, n), "memchr range inside payload[0..payload_size)");
	g_memchr_calls++; g_memchr_s = s; g_memchr_n = n; g_memchr_hit = 0;
	if (n == 0 || nondet_bool()) return NULL;
	size_t k = nondet_size_t();
	__CPROVER_assume(k < n && ((const unsigned char *) s)[k] == (unsigned char) c);
	g_memchr_hit = 1;
	return (void *) ((const unsigned char *) s + k);
}
#define memcpy(d, s, n) c19_memcpy((d), (s), (n))
#define memchr(s, c, n) c19_memchr((s), (c), (n))

#include "extend.c"
#ifdef C19_NANOS6
#include "nanos6/event.c"   /* the real /repo/src/emu/nanos6/event.c */
#define MODEL_ID '6'
#define MODEL_PROC struct nanos6_proc
#define MODEL_THREAD struct nanos6_thread
#else
#include "nosv/event.c"     /* the real /repo/src/emu/nosv/event.c */
#define MODEL_ID 'V'
#define MODEL_PROC struct nosv_proc
#define MODEL_THREAD struct nosv_thread
#endif
#undef memcpy
#undef memchr
#include "c19_evwf.h"

/* ---- ghosts ---- */
unsigned g_find_calls, g_op_calls, g_create_calls, g_type_calls;
unsigned g_find_id, g_body_id, g_create_type, g_create_task, g_type_id;
int g_parallel;
const char *g_type_label; int g_label_ok;
#define GHOSTS g_find_calls, g_op_calls, g_create_calls, g_type_calls, g_find_id, g_body_id, g_create_type, \
	g_create_task, g_type_id, g_parallel, g_type_label, g_label_ok, g_memchr_s, g_memchr_n, g_memchr_hit, g_memchr_calls
#define GHOSTS_PRE (g_find_calls == 0 && g_op_calls == 0 && g_create_calls == 0 && g_type_calls == 0 && g_memchr_calls == 0)

/* ---- most general stubs for task.c (trusted) ---- */
struct task *task_find(struct task *tasks, uint32_t id)
{ (void) tasks; g_find_calls++; g_find_id = id; if (nondet_bool()) return NULL; return malloc(sizeof(struct task)); }
int task_is_parallel(struct task *t) { (void) t; g_parallel = nondet_bool(); return g_parallel; }
uint32_t task_get_id(struct task *t) { (void) t; return (uint32_t) nondet_int(); }
static int c19_task_op(uint32_t body_id) { g_op_calls++; g_body_id = body_id; return nondet_bool() ? 0 : -1; }
int task_execute(struct task_stack *s, struct task *t, uint32_t b) { (void) s; (void) t; return c19_task_op(b); }
int task_end(struct task_stack *s, struct task *t, uint32_t b) { (void) s; (void) t; return c19_task_op(b); }
int task_pause(struct task_stack *s, struct task *t, uint32_t b) { (void) s; (void) t; return c19_task_op(b); }
int task_resume(struct task_stack *s, struct task *t, uint32_t b) { (void) s; (void) t; return c19_task_op(b); }
int task_create(struct task_info *info, uint32_t type_id, uint32_t task_id, uint32_t flags)
{ (void) info; (void) flags; g_create_calls++; g_create_type = type_id; g_create_task = task_id; return nondet_bool() ? 0 : -1; }
int task_type_create(struct task_info *info, uint32_t type_id, const char *label)
{
	(void) info;
	g_type_calls++; g_type_id = type_id; g_type_label = label;
	/* the label handed over was searched for its terminator, and one was found, in exactly
	 * the bytes between the label and the end of the payload */
	g_label_ok = (g_memchr_calls == 1 && g_memchr_hit && g_memchr_s == (const void *) label &&
		(const uint8_t *) label + g_memchr_n == g_payload + g_psize);
	return nondet_bool() ? 0 : -1;
}

#define EMU_PRE(emu) ( \
	__CPROVER_is_fresh(emu, sizeof(*emu)) && DIAG_PRE && GHOSTS_PRE && EMU_EV_WF((emu)->ev) && \
	g_payload == (const uint8_t *) (emu)->ev->payload && g_psize == (emu)->ev->payload_size && \
	__CPROVER_is_fresh((emu)->thread, sizeof(struct thread)) && \
	__CPROVER_is_fresh((emu)->thread->ext.ctx[MODEL_ID], sizeof(MODEL_THREAD)) && \
	__CPROVER_is_fresh((emu)->proc, sizeof(struct proc)) && \
	__CPROVER_is_fresh((emu)->proc->ext.ctx[MODEL_ID], sizeof(MODEL_PROC)))

unsigned w_v, w_is_jumbo; unsigned long w_psize; unsigned w_u32_0, w_u32_1;
#define WIT(emu) (w_v == (emu)->ev->v && w_psize == (emu)->ev->payload_size && w_is_jumbo == (unsigned) (emu)->ev->is_jumbo && \
	((emu)->ev->payload_size < 8 || (w_u32_0 == PL_U32((emu)->ev, 0) && w_u32_1 == PL_U32((emu)->ev, 1))))
#define RET __CPROVER_return_value

/* ---------------- update_task_state ---------------- */
WITNESS(update_task_state);
int c_update_task_state(struct emu *emu)
__CPROVER_requires(EMU_PRE(emu))
__CPROVER_requires(WBIND(update_task_state, WIT(emu)))
__CPROVER_assigns(GHOSTS, DIAG_FRAME)
__CPROVER_ensures(RET == 0 || RET == -1)
/* the task looked up is the u32 at payload bytes 0..3, after payload_size >= 4 */
__CPROVER_ensures(g_find_calls == 0 || (g_find_calls == 1 && emu->ev->payload_size >= 4 && g_find_id == PL_U32(emu->ev, 0)))
#ifdef C19_NANOS6
__CPROVER_ensures(g_op_calls == 0 || (g_op_calls == 1 && g_find_calls == 1 && g_body_id == 1))
#else
/* the body id is the u32 at payload bytes 4..7 (1 for a non-parallel task whose event says 0),
 * after payload_size >= 8 */
__CPROVER_ensures(g_op_calls == 0 || (g_op_calls == 1 && g_find_calls == 1 && emu->ev->payload_size >= 8 &&
	(g_parallel ? (g_body_id == PL_U32(emu->ev, 1) && g_body_id != 0) : (PL_U32(emu->ev, 1) == 0 && g_body_id == 1))))
#endif
__CPROVER_ensures(RET != 0 || g_op_calls == 1)
__CPROVER_ensures(RET == 0 || g_err > __CPROVER_old(g_err))
;
void h_update_task_state(void)
{
	struct emu *emu;
	WITNESS_ON(update_task_state);
	int r = update_task_state(emu);
	if (r == 0) REACH("task state change accepted");
	if (r == 0 && w_is_jumbo) REACH("accepted from a jumbo event");
	if (r != 0 && w_psize == 0) REACH("no payload refused");
#ifndef C19_NANOS6
	if (r != 0 && w_psize == 4) REACH("4-byte payload refused");
	if (r == 0 && w_psize == 16) REACH("longer payload accepted");
#endif
}

/* ---------------- create_task ---------------- */
WITNESS(create_task);
#ifdef C19_NANOS6
int c_create_task(struct emu *emu)
#else
int c_create_task(struct emu *emu, char value)
#endif
__CPROVER_requires(EMU_PRE(emu))
__CPROVER_requires(WBIND(create_task, WIT(emu)))
__CPROVER_assigns(GHOSTS, DIAG_FRAME)
__CPROVER_ensures(RET == 0 || RET == -1)
#ifdef C19_NANOS6
__CPROVER_ensures(g_create_calls == 0 || (g_create_calls == 1 && emu->ev->payload_size == 8 &&
#else
__CPROVER_ensures(g_create_calls == 0 || (g_create_calls == 1 && emu->ev->payload_size >= 8 &&
#endif
	g_create_task == PL_U32(emu->ev, 0) && g_create_type == PL_U32(emu->ev, 1)))
__CPROVER_ensures(RET != 0 || g_create_calls == 1)
__CPROVER_ensures(RET == 0 || g_err > __CPROVER_old(g_err))
;
void h_create_task(void)
{
	struct emu *emu;
	WITNESS_ON(create_task);
#ifdef C19_NANOS6
	int r = create_task(emu);
#else
	char value;
	int r = create_task(emu, value);
#endif
	if (r == 0) REACH("task created");
	if (r != 0 && w_psize == 4) REACH("4-byte payload refused");
	if (r != 0 && w_psize == 8) REACH("lower layer refused");
}

/* ---------------- pre_type ---------------- */
unsigned long w_jumbo_size;
WITNESS(pre_type);
int c_pre_type(struct emu *emu)
__CPROVER_requires(EMU_PRE(emu))
__CPROVER_requires(WBIND(pre_type, WIT(emu) && (!emu->ev->is_jumbo || w_jumbo_size == emu->ev->payload->jumbo.size)))
__CPROVER_assigns(GHOSTS, DIAG_FRAME)
__CPROVER_ensures(RET == 0 || RET == -1)
/* a type is created only from a jumbo event with more than 4 data bytes; the id is the u32 at
 * payload bytes 4..7 (data bytes 0..3), the label starts at payload byte 8 and has its NUL
 * before the end of the payload */
__CPROVER_ensures(g_type_calls == 0 || (g_type_calls == 1 && emu->ev->is_jumbo && emu->ev->payload_size > 8 &&
	g_type_id == PL_U32(emu->ev, 1) && g_type_label == (const char *) emu->ev->payload + 8 && g_label_ok))
__CPROVER_ensures(RET != 0 || g_type_calls == 1)
__CPROVER_ensures(RET == 0 || g_err > __CPROVER_old(g_err))
;
void h_pre_type(void)
{
	struct emu *emu;
	WITNESS_ON(pre_type);
	int r = pre_type(emu);
	if (r == 0) REACH("type created");
	if (r == 0 && w_jumbo_size == 5) REACH("type with empty label created");
	if (r == 0 && w_jumbo_size > 1000000) REACH("type with a huge label created");
	if (r != 0 && w_is_jumbo && w_jumbo_size == 4) REACH("4 data bytes refused");
	if (r != 0 && w_is_jumbo && w_jumbo_size > 4 && g_memchr_calls == 1 && !g_memchr_hit) REACH("label without terminator refused");
	if (r != 0 && !w_is_jumbo && w_v == 'c') REACH("non-jumbo refused");
}
