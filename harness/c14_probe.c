/* C14 -- emulator side: model_probe, model_event on the real src/emu/model.c */
#include "prelude.h"
#include "model.c"                     /* the real /repo/src/emu/model.c */

/* =====================================================================================
 * model_probe: "A model is enabled in emulation exactly when some stream requires it (or
 * all are forced on)".  For an ARBITRARY model index g_k (single-cell observer):
 *   returns 0  => enabled[g_k] <=> registered[g_k] and it has a probe and
 *                 (its probe answered > 0 or enable_all_models)
 *   returns -1 <=> some probe that was called answered < 0
 * Pre-state: the one model_init + model_register leave (nothing enabled yet).  The two
 * loops over the 256 model slots are unwound completely.
 * ===================================================================================== */
int g_k;                   /* observed model index, arbitrary */
int g_ret_k;               /* what the probe of model g_k answered */
unsigned g_calls_k;        /* how many times it was called */
int g_any_neg;             /* some probe answered < 0 */
static int probe_k(struct emu *emu)
{
	(void) emu;
	int r = nondet_int();
	g_ret_k = r;
	g_calls_k++;
	if (r < 0)
		g_any_neg = 1;
	return r;
}
static int probe_other(struct emu *emu)
{
	(void) emu;
	int r = nondet_int();
	if (r < 0)
		g_any_neg = 1;
	return r;
}

int w_registered_k, w_has_probe_k, w_enable_all;
WITNESS(model_probe);

int c_model_probe(struct model *model, struct emu *emu)
__CPROVER_requires(g_k >= 0 && g_k < MAX_MODELS && g_calls_k == 0 && g_any_neg == 0)
__CPROVER_requires(model->enabled[g_k] == 0)
__CPROVER_requires(DIAG_PRE)
__CPROVER_requires(WBIND(model_probe, w_registered_k == (model->registered[g_k] != 0) &&
	w_has_probe_k == (model->spec[g_k]->probe != NULL) && w_enable_all == (emu->args.enable_all_models != 0)))
__CPROVER_assigns(__CPROVER_object_upto(model->enabled, sizeof(model->enabled)), DIAG_FRAME, g_ret_k, g_calls_k, g_any_neg)
__CPROVER_ensures(__CPROVER_return_value == 0 || __CPROVER_return_value == -1)
__CPROVER_ensures((__CPROVER_return_value == -1) == (g_any_neg != 0))
__CPROVER_ensures(__CPROVER_return_value != 0 || (model->enabled[g_k] != 0) == (
	model->registered[g_k] != 0 && model->spec[g_k]->probe != NULL &&
	(g_ret_k > 0 || emu->args.enable_all_models != 0)))
/* the probe of a registered model is consulted exactly once, of others never */
__CPROVER_ensures(__CPROVER_return_value != 0 ||
	g_calls_k == ((model->registered[g_k] != 0 && model->spec[g_k]->probe != NULL) ? 1u : 0u))
__CPROVER_ensures(__CPROVER_return_value == 0 || g_err > __CPROVER_old(g_err))
;

static struct model h_model;
static struct model_spec h_specs[MAX_MODELS];
static struct model_evspec h_evspec;
static struct emu h_emu;

void h_model_probe(void)
{
	WITNESS_ON(model_probe);
	emu_hook_t *pk = probe_k, *po = probe_other;   /* candidate targets of spec->probe */
	for (int i = 0; i < MAX_MODELS; i++) {
		h_model.enabled[i] = 0;                 /* model_init */
		h_model.spec[i] = &h_specs[i];          /* model_register (spec[i] is only read if registered[i]) */
		h_specs[i].evspec = &h_evspec;
		h_specs[i].probe = nondet_bool() ? NULL : (i == g_k ? pk : po);
	}
	int r = model_probe(&h_model, &h_emu);
	if (r == 0 && h_model.enabled[g_k]) REACH("model enabled");
	if (r == 0 && h_model.enabled[g_k] && g_ret_k == 0) REACH("model enabled by enable_all although its probe answered 0");
	if (r == 0 && !h_model.enabled[g_k] && w_registered_k && w_has_probe_k) REACH("registered model not enabled: probe answered 0");
	if (r == 0 && !w_registered_k) REACH("unregistered model stays disabled");
	if (r == -1) REACH("a probe failed");
	if (r == 0 && g_k == 255) REACH("last model slot observed");
}

/* =====================================================================================
 * model_event: "events of a model that is not enabled are rejected": not registered or
 * not enabled => -1 and the model's handler is NOT called; otherwise the handler (if
 * any) is called exactly once and decides.
 * ===================================================================================== */
unsigned g_ev_calls;
int g_ev_ret;
static int stub_event(struct emu *emu)
{
	(void) emu;
	g_ev_calls++;
	g_ev_ret = nondet_int();
	return g_ev_ret;
}

int w_index, w_registered, w_enabled, w_has_handler;
WITNESS(model_event);
#define EV_LEGAL(model, index) ((model)->registered[index] != 0 && (model)->enabled[index] != 0)

int c_model_event(struct model *model, struct emu *emu, int index)
__CPROVER_requires(__CPROVER_is_fresh(model, sizeof(*model)))
__CPROVER_requires(__CPROVER_is_fresh(emu, sizeof(*emu)))
/* emu.c passes emu->ev->m, a uint8_t */
__CPROVER_requires(index >= 0 && index < MAX_MODELS)
/* model_register: a registered slot points to its spec */
__CPROVER_requires(model->registered[index] == 0 || (__CPROVER_is_fresh(model->spec[index], sizeof(struct model_spec)) &&
	(model->spec[index]->event == NULL || model->spec[index]->event == stub_event)))
__CPROVER_requires(g_ev_calls < 1000u && DIAG_PRE)
__CPROVER_requires(WBIND(model_event, w_index == index && w_registered == (model->registered[index] != 0) &&
	w_enabled == (model->enabled[index] != 0) &&
	w_has_handler == (model->registered[index] != 0 && model->spec[index]->event != NULL)))
__CPROVER_assigns(DIAG_FRAME, g_ev_calls, g_ev_ret)
__CPROVER_ensures(__CPROVER_return_value == 0 || __CPROVER_return_value == -1)
/* rejected without consulting the model */
__CPROVER_ensures(EV_LEGAL(model, index) || (__CPROVER_return_value == -1 &&
	g_ev_calls == __CPROVER_old(g_ev_calls) && g_err > __CPROVER_old(g_err)))
/* enabled, no handler: accepted */
__CPROVER_ensures(!EV_LEGAL(model, index) || model->spec[index]->event != NULL ||
	(__CPROVER_return_value == 0 && g_ev_calls == __CPROVER_old(g_ev_calls)))
/* enabled, handler: called exactly once, its verdict is returned */
__CPROVER_ensures(!EV_LEGAL(model, index) || model->spec[index]->event == NULL ||
	(g_ev_calls == __CPROVER_old(g_ev_calls) + 1u && __CPROVER_return_value == (g_ev_ret != 0 ? -1 : 0)))
;

void h_model_event(void)
{
	struct model *model;
	struct emu *emu;
	int index;
	WITNESS_ON(model_event);
	emu_hook_t *ev = stub_event;               /* candidate target of spec->event */
	(void) ev;
	int r = model_event(model, emu, index);
	if (r == -1 && !w_registered) REACH("event of an unregistered model rejected");
	if (r == -1 && w_registered && !w_enabled) REACH("event of a model that is not enabled rejected");
	if (r == 0 && w_registered && w_enabled && !w_has_handler) REACH("enabled model without handler");
	if (r == 0 && w_has_handler) REACH("handler accepted the event");
	if (r == -1 && w_registered && w_enabled && w_has_handler) REACH("handler refused the event");
	if (w_index == 255 && r == 0) REACH("index 255");
}
