/* C14 -- emulator side: model_probe, model_event on the real src/emu/model.c */
#include "prelude.h"
#include "model.c"                     /* the real /repo/src/emu/model.c */

/* =====================================================================================
 * model_probe: "A model is enabled in emulation exactly when some stream requires it (or
 * all are forced on)".  For an ARBITRARY model index g_k (single-cell observer):
 *   returns 0  => enabled[g_k] <=> registered[g_k] and it has a probe and
 *                 (its probe answered > 0 or enable_all_models)
 *   returns -1 <=> some probe that was called answered < 0
 * Pre-state: the one model_init + model_register leave (nothing enabled yet).  The two
 * loops over the 256 model slots are unwound completely.
 * ===================================================================================== */
int g_k;                   /* observed model index, arbitrary */
int g_ret_k;               /* what the probe of model g_k answered */
unsigned g_calls_k;        /* how many times it was called */
int g_any_neg;             /* some probe answered < 0 */
/* witnesses for the native replay driver (native/c14_model_probe_replay.c): the observed slot, what
 * model_register left in it, -a, what its probe answered (w_ret_k; w_called_k: it was consulted) and
 * what the LAST other probe consulted answered (w_other_n of them were) */
int w_k, w_registered, w_has_probe, w_enable_all, w_ret_k, w_called_k, w_other_ret, w_other_n;
static int probe_k(struct emu *emu)
{
	(void) emu;
	int r = nondet_int();
	g_ret_k = r;
	w_ret_k = r;
	w_called_k = 1;
	g_calls_k++;
	if (r < 0)
		g_any_neg = 1;
	return r;
}
static int probe_other(struct emu *emu)
{
	(void) emu;
	int r = nondet_int();
	w_other_ret = r;
	w_other_n++;
	if (r < 0)
		g_any_neg = 1;
	return r;
}

/* No DFCC in this group ("no_dfcc" in the plan): with the contract instrumentation the
 * complete unwinding of the two 256-iteration loops needs > 5 min of symbolic execution,
 * and a loop contract needs a quantified invariant (enabled[j] => registered[j] for all
 * j, for the memory safety of the second loop).  The harness builds the state
 * model_init + model_register leave, for ALL slots, calls the real function, and
 * asserts the contract; the frame is asserted for the observed slot and for emu->args. */
void h_model_probe(void)
{
	static struct model model;
	/* model_probe only reads spec->probe and spec->evspec->nevents (name and version go
	 * to diagnostics): the observed slot has its own spec, the other registered slots
	 * share two (one with a probe, one without) -- no array of 256 specs is needed */
	static struct model_spec spec_k, spec_with_probe, spec_without_probe;
	static struct model_evspec evspec;
	static struct emu emu;
	emu_hook_t *pk = probe_k, *po = probe_other;   /* candidate targets of spec->probe */

	int k = nondet_int();
#if defined(C14_PROBE_ALL)
	__CPROVER_assume(k >= 0 && k < MAX_MODELS);    /* the observed slot: any (thorough tier) */
#elif defined(C14_PROBE_K)
	k = C14_PROBE_K;                               /* one concrete slot */
#else
	/* quick tier: the first slot, the last one, and the one of the ovni model */
	__CPROVER_assume(k == 0 || k == 'O' || k == MAX_MODELS - 1);
#endif
	g_k = k;
	g_calls_k = 0;
	g_any_neg = 0;
	g_err = nondet_int() & 0xfffff;
	g_diag = g_err;
	g_warn = 0;
	spec_k.evspec = spec_with_probe.evspec = spec_without_probe.evspec = &evspec;
	spec_k.probe = nondet_bool() ? NULL : pk;
	spec_with_probe.probe = po;
	spec_without_probe.probe = NULL;
	struct model any;                                      /* uninitialised: arbitrary */
	model = any;                                           /* registered[]: any */
	__CPROVER_array_set(model.enabled, 0);                 /* model_init */
	for (int i = 0; i < MAX_MODELS; i++)                   /* model_register */
		model.spec[i] = !model.registered[i] ? NULL : i == k ? &spec_k :
			nondet_bool() ? &spec_with_probe : &spec_without_probe;
	emu.args.enable_all_models = nondet_int();
	evspec.nevents = nondet_long();

	int registered_k = model.registered[k];
	int has_probe_k = registered_k && spec_k.probe != NULL;
	int enable_all = emu.args.enable_all_models;
	unsigned err0 = g_err;
	w_k = k; w_registered = registered_k != 0; w_has_probe = has_probe_k; w_enable_all = enable_all;
	w_ret_k = 0; w_called_k = 0; w_other_ret = 0; w_other_n = 0;

	int r = model_probe(&model, &emu);

	VASSERT(r == 0 || r == -1, "model_probe returns 0 or -1");
	VASSERT((r == -1) == (g_any_neg != 0), "model_probe fails exactly when a probe it called answered < 0");
	VASSERT(r != 0 || (model.enabled[k] != 0) == (registered_k && has_probe_k && (g_ret_k > 0 || enable_all != 0)),
		"enabled[k] <=> registered and has a probe and (probe answered > 0 or enable_all_models)");
	VASSERT(r != 0 || g_calls_k == (has_probe_k ? 1u : 0u),
		"the probe of a registered model is consulted exactly once, of an unregistered one never");
	VASSERT(r == 0 || g_err > err0, "a failure comes with a diagnostic");
	/* frame, observed slot and arguments */
	VASSERT(model.registered[k] == registered_k && model.spec[k] == (registered_k ? &spec_k : NULL) &&
		emu.args.enable_all_models == enable_all, "model_probe changes neither registered[], spec[] nor emu->args");
	VASSERT(model.enabled[k] == 0 || model.enabled[k] == 1, "enabled[k] is 0 or 1");

	if (r == 0 && model.enabled[k] && g_ret_k == 0 && has_probe_k) REACH("model enabled by enable_all although its probe answered 0");
	if (r == 0 && !model.enabled[k] && has_probe_k && k == MAX_MODELS - 1) REACH("last slot: registered model not enabled, its probe answered 0");
	if (r == -1) REACH("a probe failed");
}

/* =====================================================================================
 * model_event: "events of a model that is not enabled are rejected": not registered or
 * not enabled => -1 and the model's handler is NOT called; otherwise the handler (if
 * any) is called exactly once and decides.
 * ===================================================================================== */
unsigned g_ev_calls;
int g_ev_ret;
int w_evret;               /* the handler's verdict, for the native replay driver */
static int stub_event(struct emu *emu)
{
	(void) emu;
	g_ev_calls++;
	g_ev_ret = nondet_int();
	w_evret = g_ev_ret;
	return g_ev_ret;
}

int w_index, w_enabled, w_has_handler;   /* (w_registered: declared above, shared with model_probe) */
WITNESS(model_event);
#define EV_LEGAL(model, index) ((model)->registered[index] != 0 && (model)->enabled[index] != 0)

int c_model_event(struct model *model, struct emu *emu, int index)
__CPROVER_requires(__CPROVER_is_fresh(model, sizeof(*model)))
__CPROVER_requires(__CPROVER_is_fresh(emu, sizeof(*emu)))
/* emu.c passes emu->ev->m, a uint8_t */
__CPROVER_requires(index >= 0 && index < MAX_MODELS)
/* model_register: a registered slot points to its spec */
__CPROVER_requires(model->registered[index] == 0 || (__CPROVER_is_fresh(model->spec[index], sizeof(struct model_spec)) &&
	(model->spec[index]->event == NULL || model->spec[index]->event == stub_event)))
__CPROVER_requires(g_ev_calls < 1000u && DIAG_PRE)
__CPROVER_requires(WBIND(model_event, w_index == index && w_registered == (model->registered[index] != 0) &&
	w_enabled == (model->enabled[index] != 0) &&
	w_has_handler == (model->registered[index] != 0 && model->spec[index]->event != NULL)))
__CPROVER_assigns(DIAG_FRAME, g_ev_calls, g_ev_ret, w_evret)
__CPROVER_ensures(__CPROVER_return_value == 0 || __CPROVER_return_value == -1)
/* rejected without consulting the model */
__CPROVER_ensures(EV_LEGAL(model, index) || (__CPROVER_return_value == -1 &&
	g_ev_calls == __CPROVER_old(g_ev_calls) && g_err > __CPROVER_old(g_err)))
/* enabled, no handler: accepted */
__CPROVER_ensures(!EV_LEGAL(model, index) || model->spec[index]->event != NULL ||
	(__CPROVER_return_value == 0 && g_ev_calls == __CPROVER_old(g_ev_calls)))
/* enabled, handler: called exactly once, its verdict is returned */
__CPROVER_ensures(!EV_LEGAL(model, index) || model->spec[index]->event == NULL ||
	(g_ev_calls == __CPROVER_old(g_ev_calls) + 1u && __CPROVER_return_value == (g_ev_ret != 0 ? -1 : 0)))
;

void h_model_event(void)
{
	struct model *model;
	struct emu *emu;
	int index;
	WITNESS_ON(model_event);
	emu_hook_t *ev = stub_event;               /* candidate target of spec->event */
	(void) ev;
	int r = model_event(model, emu, index);
	if (r == -1 && !w_registered) REACH("event of an unregistered model rejected");
	if (r == -1 && w_registered && !w_enabled) REACH("event of a model that is not enabled rejected");
	if (r == 0 && w_registered && w_enabled && !w_has_handler) REACH("enabled model without handler");
	if (r == 0 && w_has_handler) REACH("handler accepted the event");
	if (r == -1 && w_registered && w_enabled && w_has_handler) REACH("handler refused the event");
	if (w_index == 255 && r == 0) REACH("index 255");
}
