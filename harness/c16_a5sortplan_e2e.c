/* C16 (a5) -- bounded END-TO-END lemma: stream_winsort of the real src/emu/ovnisort.c on a small stream with one
 * unsorted region, with execute_sort_plan REPLACED by the contract proved in group a5_execute_sort_plan (same file,
 * same scene) and ring_reset / ring_add / starts_ / ends_unsorted_region verified inline.
 *
 * THE STREAM (bound): OU[ e1 [e2] OU] -- the scene of c16_a5sortplan_exec.c with event 0 = the opening marker (12 bytes),
 * g_K - 1 = 1..2 region events of the group's sizes (28, 16) that are not closing markers, `next` = the closing
 * marker; ring of 4 slots (look-back 3); clocks below 2^63, none later than the closing marker's (the premise of the
 * property: only the events INSIDE the region are out of order).  The events inside the region are in any order among
 * themselves and may be EARLIER than the opening marker (insertion depth reaches the start of the stream).
 *
 * CLAIM: the plan is executed exactly when the closing marker arrives, for the region [e1, OU]) and this ring;
 *   - it can be sorted (the window still reaches the first event of the stream, or the marker is strictly earlier
 *     than the region): returns 0, the whole stream (marker, region, closing marker) is in non-decreasing clock order, it
 *     is a permutation of the original events byte for byte (observer), the file was written through the descriptor
 *     opened for writing, then synced and closed once;
 *   - it cannot (three events fill the 3-entry window and none is earlier than the region): returns -1, says so,
 *     nothing written.
 *   - the iterator fails: -1, says so.
 * Sorting again / check mode: the result satisfies "no clock decreases", the accept condition of stream_check (group
 * stream_check of this plan) and of execute_sort_plan's own ring_check -- composition on paper, DESIGN Appendix A. */
#define A5_EXEC 1
#define A5_E2E 1
/* iterator over the scene (stream.c is outside the unit): delivers event 0 .. g_K-1, then `next`, then the end; may fail at any step */
long g_it; int g_step_failed;
#include "c16_a5sortplan_exec.c"

int
stream_step(struct stream *stream)
{
	(void) stream;
	if (nondet_bool()) { g_step_failed = 1; return -1; }
	if (g_it > g_K) return 1;
	g_it++;
	return 0;
}
struct ovni_ev *stream_ev(struct stream *stream) { (void) stream; return EVPTR_O(g_it - 1); }

#define MCV_IS(k, v) (a5_mem[OC(k) + 1] == 'O' && a5_mem[OC(k) + 2] == 'U' && a5_mem[OC(k) + 3] == (v))
static uint64_t sc_clk_next(void) { for (long c = 1; c <= A5_K; c++) if (g_K == c) return CLKAT(a5_mem, OC(c)); return 0; }
static _Bool sc_premise(void)
{
	_Bool ok = 1;
	uint64_t cn = sc_clk_next();
	for (long k = 0; k < A5_K; k++) if (k < g_K) ok = ok & (CLKAT(a5_mem, OC(k)) <= cn);
	return ok & (cn < (1UL << 63));
}
/* the whole stream, at the output layout, is in non-decreasing clock order: the region is, and its last event is not
 * later than the closing marker (whose bytes, like every byte outside the region, are unchanged: observer g_pos) */
uint64_t g_cn;       /* pre-state: clock of the closing marker */
static _Bool sc_stream_sorted(void)
{
	_Bool ok = sc_sorted_out();
	for (long j = 0; j < A5_K; j++) if (j == g_K - 1) ok = ok & (sc_mc(g_P[j]) <= g_cn);
	return ok;
}

struct stream a5_stream;
int c_stream_winsort(struct stream *stream, struct ring *r)
__CPROVER_requires(stream == &a5_stream && RING_SHAPE(r) && 2 <= g_K && g_K <= A5_K && g_it == 0 && g_step_failed == 0)
__CPROVER_requires(sc_wf_in(0) && sc_premise() && g_cn == sc_clk_next())
/* event 0 opens a region, `next` closes it, the events in between do not */
__CPROVER_requires(MCV_IS(0, '[') && a5_mem[OC(g_K) + 1] == 'O' && a5_mem[OC(g_K) + 2] == 'U' && a5_mem[OC(g_K) + 3] == ']')
__CPROVER_requires(!MCV_IS(1, ']') && (g_K < 3 || !MCV_IS(2, ']')))
__CPROVER_requires(__CPROVER_pointer_equals(stream->buf, a5_mem) && g_fd >= 0 && g_open_calls == 0 && g_sync_calls == 0 && g_close_calls == 0)
/* the pre-state facts the contract of execute_sort_plan names (the mapping is not written before the plan runs;
 * the ring then holds exactly the g_K events delivered so far: head 0, tail g_K) */
__CPROVER_requires(g_b == 1 && g_min == sc_minclk() && g_cnt == g_K && g_head == 0 && g_dj == sc_destj(g_K, g_min) && g_f == (g_dj >= 0 ? g_dj : 0) && sc_ck_bound())
__CPROVER_requires(0 <= g_s && g_s < g_K && 0 <= g_bb && g_bb < SC(g_s) && g_oldbyte == sc_mb(OC(g_s) + g_bb))
__CPROVER_requires(0 <= g_pos && g_pos < A5_MEM && g_posbyte == a5_mem[g_pos])
__CPROVER_requires(g_pw_calls == 0 && g_pw_gap == 0 && g_pw_fail == 0 && g_said == 0 && g_die_ok == 0 && g_malloc_fail == 0 && g_qsort_calls == 0 && DIAG_PRE)
__CPROVER_requires(g_outoff == A5_OUTOFF && g_mcalls == 0 && g_ycalls == 0 && g_ccalls == 0 && g_badfree == 0)
__CPROVER_assigns(R->head, R->tail, g_it, g_step_failed, g_open_calls, g_sync_calls, g_close_calls, g_sync_fd, g_close_fd)
__CPROVER_assigns(__CPROVER_object_whole(a5_mem), __CPROVER_object_whole(a5_slots), __CPROVER_object_whole(g_P), __CPROVER_object_whole(g_perm))
__CPROVER_assigns(g_pw_calls, g_pw_fd, g_pw_first, g_pw_next, g_pw_gap, g_pw_fail, g_said, DIAG_FRAME, g_die_ok, g_malloc_fail, g_qsort_calls, g_died)
__CPROVER_assigns(__CPROVER_object_whole(a5_out), __CPROVER_object_whole(a5_cpy), __CPROVER_object_whole(a5_tab), g_mcalls, g_ycalls, g_ccalls, g_mptr, g_yptr, g_cptr, g_mfreed, g_yfreed, g_cfreed, g_badfree)
__CPROVER_ensures(RV == 0 || RV == -1)
/* sorted exactly when the iterator worked and the region has a destination inside the window */
__CPROVER_ensures((RV == 0) == (!g_step_failed && (g_dj >= 0 || g_K < A5_RN - 1)))
__CPROVER_ensures(RV == 0 || g_said != 0)
/* (the plan runs at most once: the allocation model hands out one work buffer) */
/* success: the whole stream is ordered, is a permutation of what it was (observed byte of the observed event; sizes kept),
 * nothing outside [first, next) changed; written through the descriptor, synced, closed */
__CPROVER_ensures(RV != 0 || (sc_perm() && sc_wf_out() && sc_stream_sorted()))
__CPROVER_ensures(RV != 0 || ((INREG(0) && g_perm[0] == g_s) || (INREG(1) && g_perm[1] == g_s) || (INREG(2) && g_perm[2] == g_s)))
__CPROVER_ensures(RV != 0 || !(INREG(0) && g_perm[0] == g_s) || sc_mb(g_P[0] + g_bb) == g_oldbyte)
__CPROVER_ensures(RV != 0 || !(INREG(1) && g_perm[1] == g_s) || sc_mb(g_P[1] + g_bb) == g_oldbyte)
__CPROVER_ensures(RV != 0 || !(INREG(2) && g_perm[2] == g_s) || sc_mb(g_P[2] + g_bb) == g_oldbyte)
__CPROVER_ensures(RV != 0 || (g_pos >= OC(g_f) && g_pos < OC(g_K)) || a5_mem[g_pos] == g_posbyte)
__CPROVER_ensures(RV != 0 || (g_pw_calls >= 1 && g_pw_fd == g_fd && g_pw_first == OC(g_f) && g_pw_next == OC(g_K) && g_open_calls == 1 && g_sync_calls == 1 && g_sync_fd == g_fd && g_close_calls == 1 && g_close_fd == g_fd))
/* failure of the plan: nothing written */
__CPROVER_ensures(!(RV == -1 && !g_step_failed) || (g_pw_calls == 0 && a5_mem[g_pos] == g_posbyte))
;
void h_e2e_stream_winsort(void)
{
	a5_link();
	WITNESS_OFF(execute_sort_plan);
	int r = stream_winsort(&a5_stream, R);
	if (r == 0 && g_K == 2 && g_perm[0] == 1) REACH("the region event is earlier than the opening marker and moves before it");
	if (r == 0 && g_K == 3 && g_perm[1] == 2 && g_perm[2] == 1) REACH("two region events of different sizes exchanged");
	if (r == -1 && !g_step_failed) REACH("window full and nothing earlier: fails, says so");
	if (r == -1 && g_step_failed) REACH("iterator failure");
}
