/* C04 -- ovni/event.c: the six thread life-cycle handlers and the pre_thread
 * dispatch, on the real file.  Callees outside the unit are replaced by
 * contracts: thread_set_state/set_cpu/unset_cpu (proved on the real thread.c in
 * harness/c04_thread.c) and cpu_update/cpu_add_thread/cpu_remove_thread/
 * loom_get_cpu (ASSUMED shape, see the plan's trusted list).
 */
#include "prelude.h"
#include "c04_thread_spec.h"
#include "loom.h"
#include "event.c"         /* the real /repo/src/emu/ovni/event.c */

/* ======================= assumed contracts (cpu.c, loom.c) ======================= */
unsigned g_cpu_fails;      /* number of cpu.c callees that returned non-zero */
struct cpu *g_got_cpu;     /* last result of loom_get_cpu */
/* what the handler told cpu.c, and what the thread looked like at that moment
 * (cpu_update recomputes the occupancy of the CPU from the threads' CURRENT
 * states and refuses an oversubscribed physical CPU: it must run after the
 * state change, on the thread's CPU) */
unsigned g_cpu_calls;        /* number of cpu.c calls */
int g_cpu_op;                /* last one: 1 cpu_update, 2 cpu_add_thread, 3 cpu_remove_thread */
struct cpu *g_cpu_last;      /* its cpu argument */
int g_cpu_st;                /* state of the event's thread when it was called */
struct thread *g_cur_th;     /* the event's thread (bound by the handler contracts) */
#define CPU_FAILED (g_cpu_fails != __CPROVER_old(g_cpu_fails))
#define CPU_TOLD(op, cpu, st) (g_cpu_calls == __CPROVER_old(g_cpu_calls) + 1 && g_cpu_op == (op) && g_cpu_last == (cpu) && g_cpu_st == (int)(st))
#define CPU_LOG_FRAME g_cpu_calls, g_cpu_op, g_cpu_last, g_cpu_st
#define CPU_LOG_POST(op, cpu) (g_cpu_calls == __CPROVER_old(g_cpu_calls) + 1 && g_cpu_op == (op) && g_cpu_last == (cpu) && g_cpu_st == (int) g_cur_th->state)
#define CPU_CALL_POST ((RET == 0 || RET == -1) && \
	(RET != 0) == (g_cpu_fails == __CPROVER_old(g_cpu_fails) + 1) && \
	(RET == 0) == (g_cpu_fails == __CPROVER_old(g_cpu_fails)) && \
	(RET == 0 ? g_err == __CPROVER_old(g_err) : g_err > __CPROVER_old(g_err)) && DIAG_POST(3))
/* what cpu.c writes in a CPU: the counters, the list head, the unique-thread
 * pointers, and (through chan_set) is_dirty/data.value of its five channels.
 * (Listed cell by cell: a whole-array target `cpu->chan` is a 44 KB havoc.) */
#define CPU_CH_FRAME(cpu, k) (cpu)->chan[k].is_dirty, (cpu)->chan[k].data.value
#define CPU_FRAME(cpu) (cpu)->nthreads, (cpu)->nth_running, (cpu)->nth_active, (cpu)->threads, \
	(cpu)->th_running, (cpu)->th_active, CPU_CH_FRAME(cpu, CPU_CHAN_NRUN), CPU_CH_FRAME(cpu, CPU_CHAN_PID), \
	CPU_CH_FRAME(cpu, CPU_CHAN_TID), CPU_CH_FRAME(cpu, CPU_CHAN_THRUN), CPU_CH_FRAME(cpu, CPU_CHAN_THACT)

#define CPU_INDEX_KNOWN(loom, index) ((index) == -1 || ((index) >= 0 && (size_t)(index) < (loom)->ncpus))

/* loom_get_cpu: NULL exactly for an index that is neither -1 (virtual CPU) nor a
 * logical index of the loom; otherwise the CPU object the loom holds for that
 * index, named by the ghost g_loom_cpu (allocated by the caller's precondition:
 * an is_fresh in this ensures costs 9 M clauses, measured; the real object lives
 * in loom->cpus_array / loom->vcpu). */
struct cpu *g_loom_cpu;
struct cpu *cr_loom_get_cpu(struct loom *loom, int index)
__CPROVER_requires(__CPROVER_is_fresh(loom, sizeof(*loom)))
__CPROVER_assigns(g_got_cpu)
__CPROVER_ensures((RET != NULL) == CPU_INDEX_KNOWN(loom, index))
__CPROVER_ensures(RET == NULL || __CPROVER_pointer_equals(RET, g_loom_cpu))
__CPROVER_ensures(g_got_cpu == RET)
;

/* cpu_update / cpu_add_thread / cpu_remove_thread: may fail (oversubscribed
 * physical CPU, thread already/not in the list, channel refusal); touch only the
 * CPU's bookkeeping and channels and the thread's cpu-list links. */
int cr_cpu_update(struct cpu *cpu)
__CPROVER_requires(__CPROVER_is_fresh(cpu, sizeof(*cpu)) && CNT_PRE(2000000u) && g_cpu_fails < 2000000u && g_cpu_calls < 2000000u)
__CPROVER_assigns(CPU_FRAME(cpu), g_cpu_fails, CPU_LOG_FRAME, DIAG_FRAME)
__CPROVER_ensures(CPU_LOG_POST(1, cpu))
__CPROVER_ensures(CPU_CALL_POST)
;
int cr_cpu_add_thread(struct cpu *cpu, struct thread *thread)
__CPROVER_requires(__CPROVER_is_fresh(cpu, sizeof(*cpu)) && __CPROVER_is_fresh(thread, sizeof(*thread)))
__CPROVER_requires(CNT_PRE(2000000u) && g_cpu_fails < 2000000u && g_cpu_calls < 2000000u)
__CPROVER_assigns(CPU_FRAME(cpu), thread->cpu_prev, thread->cpu_next, g_cpu_fails, CPU_LOG_FRAME, DIAG_FRAME)
__CPROVER_ensures(CPU_LOG_POST(2, cpu))
__CPROVER_ensures(CPU_CALL_POST)
;
int cr_cpu_remove_thread(struct cpu *cpu, struct thread *thread)
__CPROVER_requires(__CPROVER_is_fresh(cpu, sizeof(*cpu)) && __CPROVER_is_fresh(thread, sizeof(*thread)))
__CPROVER_requires(CNT_PRE(2000000u) && g_cpu_fails < 2000000u && g_cpu_calls < 2000000u)
__CPROVER_assigns(CPU_FRAME(cpu), thread->cpu_prev, thread->cpu_next, g_cpu_fails, CPU_LOG_FRAME, DIAG_FRAME)
__CPROVER_ensures(CPU_LOG_POST(3, cpu))
__CPROVER_ensures(CPU_CALL_POST)
;

/* Keep the symbols of the replaced callees alive even if an edit of event.c removes their
 * last call: goto-instrument aborts ("function_symbol_exists") on a --replace-call-with-contract
 * that names a vanished function, which would turn a violation into "undecided". */
int (*const c04_keep_set_state)(struct thread *, enum thread_state) = thread_set_state;
int (*const c04_keep_set_cpu)(struct thread *, struct cpu *) = thread_set_cpu;
int (*const c04_keep_unset_cpu)(struct thread *) = thread_unset_cpu;
int (*const c04_keep_cpu_update)(struct cpu *) = cpu_update;
int (*const c04_keep_cpu_add)(struct cpu *, struct thread *) = cpu_add_thread;
int (*const c04_keep_cpu_remove)(struct cpu *, struct thread *) = cpu_remove_thread;
struct cpu *(*const c04_keep_get_cpu)(struct loom *, int) = loom_get_cpu;

/* ======================= the state machine of the statement ======================= */
/* legal(old state, event value) */
#define LEGAL_X(s) ((s) == TH_ST_UNKNOWN || (s) == TH_ST_DEAD)   /* not started (or dead: left open by the statement, the code accepts it) */
#define LEGAL_E(s) ((s) == TH_ST_RUNNING || (s) == TH_ST_COOLING)
#define LEGAL_P(s) ((s) == TH_ST_RUNNING || (s) == TH_ST_COOLING)
#define LEGAL_R(s) ((s) == TH_ST_PAUSED || (s) == TH_ST_WARMING)
#define LEGAL_C(s) ((s) == TH_ST_RUNNING)
#define LEGAL_W(s) ((s) == TH_ST_PAUSED)
#define IS_FSM_EV(v) ((v) == 'x' || (v) == 'e' || (v) == 'p' || (v) == 'r' || (v) == 'c' || (v) == 'w')
#define LEGAL(v, s) (((v) == 'x' && LEGAL_X(s)) || ((v) == 'e' && LEGAL_E(s)) || ((v) == 'p' && LEGAL_P(s)) || \
	((v) == 'r' && LEGAL_R(s)) || ((v) == 'c' && LEGAL_C(s)) || ((v) == 'w' && LEGAL_W(s)))
#define NEWST(v) ((v) == 'x' ? TH_ST_RUNNING : (v) == 'e' ? TH_ST_DEAD : (v) == 'p' ? TH_ST_PAUSED : \
	(v) == 'r' ? TH_ST_RUNNING : (v) == 'c' ? TH_ST_COOLING : TH_ST_WARMING)

/* ---- channel part of the thread invariant at handler entry ----
 * bay_propagate() runs after every event (emu_step), so at handler entry the
 * three thread channels are flushed: not dirty and last_value == current value;
 * their properties are the ones thread_init_end() gives them; the values mirror
 * the thread (state channel is null until the first execute). */
#define CH_CLEAN(c) ((c)->type == CHAN_SINGLE && (c)->is_dirty == 0 && CH_CB_OK(c) && \
	(c)->prop[CHAN_DIRTY_WRITE] == 0 && (c)->prop[CHAN_ALLOW_DUP] == 0 && \
	CH_HOLDS(c, (c)->last_value.type, (c)->last_value.i))
#define TH_CH_VALUES(th) ( \
	((th)->state == TH_ST_UNKNOWN ? CH_HOLDS(CH_ST(th), VALUE_NULL, 0) : CH_HOLDS(CH_ST(th), VALUE_INT64, (th)->state)) && \
	CH_HOLDS(CH_TID(th), TIDV_T(th, (th)->state), TIDV_I(th, (th)->state)) && \
	((th)->cpu == NULL ? CH_HOLDS(CH_CPU(th), VALUE_NULL, 0) : CH_HOLDS(CH_CPU(th), VALUE_INT64, (th)->cpu->gindex)))
#define TH_CH_WF(th) (CH_CLEAN(CH_ST(th)) && CH_ST(th)->prop[CHAN_IGNORE_DUP] == 0 && \
	CH_CLEAN(CH_TID(th)) && CH_TID(th)->prop[CHAN_IGNORE_DUP] == 1 && \
	CH_CLEAN(CH_CPU(th)) && CH_CPU(th)->prop[CHAN_IGNORE_DUP] == 0 && TH_CH_VALUES(th))

#define TH_PRE(th) (__CPROVER_is_fresh(th, sizeof(*(th))) && \
	((th)->cpu == NULL || __CPROVER_is_fresh((th)->cpu, sizeof(struct cpu))) && \
	TH_WF(th) && TH_CH_WF(th) && __CPROVER_pointer_equals(g_cur_th, th))
#define CNT_PRE_H (CNT_PRE(1000000u) && g_cpu_fails < 1000000u && g_cpu_calls < 1000000u)

#define OLDST __CPROVER_old(th->state)
/* timeline clause after an accepted event that leaves the thread in `ns`:
 * state channel = int64(ns), written now (dirty => emitted at this instant);
 * tid channel = tid iff running/cooling/warming, written iff that changed;
 * the cpu channel mirrors th->cpu */
#define TIMELINE(th, os, ns) (CH_HOLDS(CH_ST(th), VALUE_INT64, ns) && CH_ST(th)->is_dirty != 0 && \
	CH_HOLDS(CH_TID(th), TIDV_T(th, ns), TIDV_I(th, ns)) && \
	(CH_TID(th)->is_dirty != 0) == (ST_ACTIVE(os) != ST_ACTIVE(ns)) && TH_CH_VALUES(th))

#define TH_FRAME_STATE(th) (th)->state, (th)->is_running, (th)->is_active, \
	(th)->chan[TH_CHAN_STATE].is_dirty, (th)->chan[TH_CHAN_STATE].data.value, \
	(th)->chan[TH_CHAN_TID].is_dirty, (th)->chan[TH_CHAN_TID].data.value
#define TH_FRAME_CPU(th) (th)->cpu, (th)->cpu_prev, (th)->cpu_next, \
	(th)->chan[TH_CHAN_CPU].is_dirty, (th)->chan[TH_CHAN_CPU].data.value
#define GHOST_FRAME g_cb_calls, g_cb_fails, g_cpu_fails, CPU_LOG_FRAME, DIAG_FRAME

int w_state, w_v, w_cpu_index, w_has_cpu_h;
int w_loom_same;             /* replay: the loom hands out the thread's current CPU */
unsigned long w_payload_size, w_ncpus;

/* ======================= pause / resume / cool / warm ======================= */
/* accepted <=> legal and no lower layer refused; accepted => FSM step, TH_WF',
 * timeline; illegal => nothing at all is written (conditional frame) and a
 * diagnostic is issued */
#define SIMPLE_HANDLER_CONTRACT(fn, LEGALP, NS) \
int c_##fn(struct thread *th) \
__CPROVER_requires(TH_PRE(th) && CNT_PRE_H) \
__CPROVER_requires(WBIND(fn, w_state == (int) th->state)) \
__CPROVER_assigns(LEGALP(th->state): TH_FRAME_STATE(th), CPU_FRAME(th->cpu)) \
__CPROVER_assigns(GHOST_FRAME) \
__CPROVER_ensures(RET == 0 || RET == -1) \
__CPROVER_ensures((RET == 0) == (LEGALP(OLDST) && !CB_FAILED && !CPU_FAILED)) \
__CPROVER_ensures(RET != 0 || (th->state == NS && TH_WF(th) && TIMELINE(th, OLDST, NS))) \
/* accepted: the thread's CPU was told, once, after the state change */ \
__CPROVER_ensures(RET != 0 || CPU_TOLD(1, th->cpu, NS)) \
__CPROVER_ensures(LEGALP(OLDST) || (g_cb_calls == __CPROVER_old(g_cb_calls) && !CB_FAILED && !CPU_FAILED)) \
__CPROVER_ensures(RET == 0 ? g_err == __CPROVER_old(g_err) : g_err > __CPROVER_old(g_err)) \
;

WITNESS(pre_thread_pause);
WITNESS(pre_thread_resume);
WITNESS(pre_thread_cool);
WITNESS(pre_thread_warm);
WITNESS(pre_thread_end);
WITNESS(pre_thread_execute);
WITNESS(pre_thread);

SIMPLE_HANDLER_CONTRACT(pre_thread_pause,  LEGAL_P, TH_ST_PAUSED)
SIMPLE_HANDLER_CONTRACT(pre_thread_resume, LEGAL_R, TH_ST_RUNNING)
SIMPLE_HANDLER_CONTRACT(pre_thread_cool,   LEGAL_C, TH_ST_COOLING)
SIMPLE_HANDLER_CONTRACT(pre_thread_warm,   LEGAL_W, TH_ST_WARMING)

#define ALL_WITNESS_OFF do { WITNESS_OFF(chan_set); WITNESS_OFF(thread_set_state); WITNESS_OFF(thread_set_cpu); \
	WITNESS_OFF(thread_unset_cpu); WITNESS_OFF(thread_migrate_cpu); WITNESS_OFF(pre_thread_pause); \
	WITNESS_OFF(pre_thread_resume); WITNESS_OFF(pre_thread_cool); WITNESS_OFF(pre_thread_warm); \
	WITNESS_OFF(pre_thread_end); WITNESS_OFF(pre_thread_execute); WITNESS_OFF(pre_thread); } while (0)

#define SIMPLE_HARNESS(fn, LEGALP) \
void h_##fn(void) \
{ \
	struct thread *th; \
	ALL_WITNESS_OFF; WITNESS_ON(fn); \
	int r = fn(th); \
	if (r == 0) REACH(#fn " accepted"); \
	if (r != 0 && !LEGALP(w_state)) REACH(#fn " refused: illegal transition"); \
	if (r != 0 && LEGALP(w_state)) REACH(#fn " refused by a lower layer"); \
}
SIMPLE_HARNESS(pre_thread_pause,  LEGAL_P)
SIMPLE_HARNESS(pre_thread_resume, LEGAL_R)
SIMPLE_HARNESS(pre_thread_cool,   LEGAL_C)
SIMPLE_HARNESS(pre_thread_warm,   LEGAL_W)

/* ======================= end ======================= */
int c_pre_thread_end(struct thread *th)
__CPROVER_requires(TH_PRE(th) && CNT_PRE_H)
__CPROVER_requires(WBIND(pre_thread_end, w_state == (int) th->state))
__CPROVER_assigns(LEGAL_E(th->state): TH_FRAME_STATE(th), TH_FRAME_CPU(th), CPU_FRAME(th->cpu))
__CPROVER_assigns(GHOST_FRAME)
__CPROVER_ensures(RET == 0 || RET == -1)
__CPROVER_ensures((RET == 0) == (LEGAL_E(OLDST) && !CB_FAILED && !CPU_FAILED))
/* accepted: dead, off its CPU, cpu channel nulled now */
__CPROVER_ensures(RET != 0 || (th->state == TH_ST_DEAD && th->cpu == NULL && TH_WF(th) &&
	TIMELINE(th, OLDST, TH_ST_DEAD) && CH_CPU(th)->is_dirty != 0))
/* accepted: the thread was taken off its CPU, once, already dead */
__CPROVER_ensures(RET != 0 || CPU_TOLD(3, __CPROVER_old(th->cpu), TH_ST_DEAD))
__CPROVER_ensures(LEGAL_E(OLDST) || (g_cb_calls == __CPROVER_old(g_cb_calls) && !CB_FAILED && !CPU_FAILED))
__CPROVER_ensures(RET == 0 ? g_err == __CPROVER_old(g_err) : g_err > __CPROVER_old(g_err))
;
SIMPLE_HARNESS(pre_thread_end, LEGAL_E)

/* ======================= execute ======================= */
/* A payload of >= 4 bytes is addressed through `union ovni_ev_payload *` (16 bytes):
 * CBMC checks the bounds of the whole union on `payload->i32[0]`, so the object
 * is given the union's size; whether the stream really holds payload_size bytes
 * there is the business of C19 (stream decoding), not of this handler. */
#define EV_PRE(emu) (__CPROVER_is_fresh(emu, sizeof(*(emu))) && \
	__CPROVER_is_fresh((emu)->ev, sizeof(struct emu_ev)) && \
	__CPROVER_is_fresh((emu)->loom, sizeof(struct loom)) && \
	((emu)->ev->payload_size < 4 || __CPROVER_is_fresh((emu)->ev->payload, sizeof(union ovni_ev_payload))))
/* the CPU the loom returns: the thread's current CPU or another one */
#define LOOM_CPU_PRE(th) (((th)->cpu != NULL && __CPROVER_pointer_equals(g_loom_cpu, (th)->cpu)) || \
	__CPROVER_is_fresh(g_loom_cpu, sizeof(struct cpu)))
#define PAYLOAD_OK(emu) ((emu)->ev->payload_size >= 4)
/* the event names a CPU the loom has */
#define CPU_OK(emu) (PAYLOAD_OK(emu) && CPU_INDEX_KNOWN((emu)->loom, (emu)->ev->payload->i32[0]))

int c_pre_thread_execute(struct emu *emu, struct thread *th)
__CPROVER_requires(EV_PRE(emu) && TH_PRE(th) && LOOM_CPU_PRE(th) && CNT_PRE_H)
__CPROVER_requires(WBIND(pre_thread_execute, w_state == (int) th->state && w_payload_size == emu->ev->payload_size &&
	w_ncpus == emu->loom->ncpus && (emu->ev->payload_size < 4 || w_cpu_index == emu->ev->payload->i32[0]) &&
	w_loom_same == (th->cpu != NULL && g_loom_cpu == th->cpu)))
__CPROVER_assigns(th->state != TH_ST_RUNNING && PAYLOAD_OK(emu): g_got_cpu)
__CPROVER_assigns(th->state != TH_ST_RUNNING && CPU_OK(emu) && th->cpu == NULL: TH_FRAME_STATE(th), TH_FRAME_CPU(th), CPU_FRAME(g_loom_cpu))
__CPROVER_assigns(GHOST_FRAME)
__CPROVER_ensures(RET == 0 || RET == -1)
/* accepted <=> not started, the payload names a CPU of the loom, no lower layer refused */
__CPROVER_ensures((RET == 0) == (LEGAL_X(OLDST) && CPU_OK(emu) && !CB_FAILED && !CPU_FAILED))
/* accepted: running on that CPU; state, tid and cpu channels written now */
__CPROVER_ensures(RET != 0 || (th->state == TH_ST_RUNNING && th->cpu != NULL && th->cpu == g_got_cpu && TH_WF(th)))
__CPROVER_ensures(RET != 0 || (TIMELINE(th, OLDST, TH_ST_RUNNING) && CH_CPU(th)->is_dirty != 0))
/* accepted: the thread was added to that CPU, once, already running */
__CPROVER_ensures(RET != 0 || CPU_TOLD(2, th->cpu, TH_ST_RUNNING))
__CPROVER_ensures((LEGAL_X(OLDST) && CPU_OK(emu)) || (g_cb_calls == __CPROVER_old(g_cb_calls) && !CB_FAILED && !CPU_FAILED))
__CPROVER_ensures(RET == 0 ? g_err == __CPROVER_old(g_err) : g_err > __CPROVER_old(g_err))
;

void h_pre_thread_execute(void)
{
	struct emu *emu; struct thread *th;
	ALL_WITNESS_OFF; WITNESS_ON(pre_thread_execute);
	int r = pre_thread_execute(emu, th);
	if (r == 0 && w_state == TH_ST_UNKNOWN) REACH("execute accepted on a thread that never ran");
	if (r == 0 && w_state == TH_ST_DEAD) REACH("execute accepted on a dead thread (left open by the statement)");
	if (r != 0 && w_state == TH_ST_PAUSED) REACH("execute of a paused thread refused");
	if (r != 0 && w_state == TH_ST_UNKNOWN && w_payload_size < 4) REACH("execute refused: missing payload");
	if (r != 0 && w_state == TH_ST_UNKNOWN && w_payload_size >= 4 && w_cpu_index == -1) REACH("execute on the virtual cpu refused by a lower layer");
	if (r != 0 && w_state == TH_ST_UNKNOWN && w_payload_size >= 4 && w_cpu_index >= 0 && (unsigned long) w_cpu_index >= w_ncpus) REACH("execute refused: unknown cpu index");
}

/* ======================= pre_thread (dispatch) ======================= */
#define EVV(emu) ((emu)->ev->v)
int c_pre_thread(struct emu *emu)
__CPROVER_requires(EV_PRE(emu) && TH_PRE(emu->thread) && LOOM_CPU_PRE(emu->thread) && CNT_PRE_H)
__CPROVER_requires(WBIND(pre_thread, w_state == (int) emu->thread->state && w_v == emu->ev->v &&
	w_payload_size == emu->ev->payload_size && w_ncpus == emu->loom->ncpus &&
	(emu->ev->payload_size < 4 || w_cpu_index == emu->ev->payload->i32[0]) &&
	w_loom_same == (emu->thread->cpu != NULL && g_loom_cpu == emu->thread->cpu)))
__CPROVER_assigns(EVV(emu) == 'x' && PAYLOAD_OK(emu): g_got_cpu)
__CPROVER_assigns(LEGAL(EVV(emu), emu->thread->state) && (EVV(emu) != 'x' || CPU_OK(emu)): TH_FRAME_STATE(emu->thread))
__CPROVER_assigns(LEGAL(EVV(emu), emu->thread->state) && (EVV(emu) == 'e' || (EVV(emu) == 'x' && CPU_OK(emu))): TH_FRAME_CPU(emu->thread))
/* (the CPU objects as a whole here: DFCC's frame-inclusion checks are quadratic in the number of
 * targets -- 55 s of symex with the cell-wise CPU_FRAME, 16 s so; the cell-wise frames are
 * proved per handler in the groups above) */
__CPROVER_assigns(LEGAL(EVV(emu), emu->thread->state) && EVV(emu) != 'x': __CPROVER_object_whole(emu->thread->cpu))
__CPROVER_assigns(LEGAL(EVV(emu), emu->thread->state) && EVV(emu) == 'x' && CPU_OK(emu): __CPROVER_object_whole(g_loom_cpu))
__CPROVER_assigns(GHOST_FRAME)
__CPROVER_ensures(RET == 0 || RET == -1)
/* the iff of the statement, with every other refusal cause named */
__CPROVER_ensures((RET == 0) == ((EVV(emu) == 'C' && emu->ev->payload_size == 12) ||
	(LEGAL(EVV(emu), __CPROVER_old(emu->thread->state)) && (EVV(emu) != 'x' || CPU_OK(emu)) && !CB_FAILED && !CPU_FAILED)))
/* every value byte outside {C,x,e,p,r,c,w} is refused */
__CPROVER_ensures(EVV(emu) == 'C' || IS_FSM_EV(EVV(emu)) || RET == -1)
/* accepted life-cycle event: the FSM step, the invariant, the timeline */
__CPROVER_ensures(RET != 0 || !IS_FSM_EV(EVV(emu)) || (emu->thread->state == NEWST(EVV(emu)) && TH_WF(emu->thread) &&
	TIMELINE(emu->thread, __CPROVER_old(emu->thread->state), NEWST(EVV(emu))) &&
	(EVV(emu) != 'e' || emu->thread->cpu == NULL) && (EVV(emu) != 'x' || emu->thread->cpu == g_got_cpu)))
/* ... and the CPU was told (update / add / remove) once, after the state change */
__CPROVER_ensures(RET != 0 || !IS_FSM_EV(EVV(emu)) || CPU_TOLD(EVV(emu) == 'x' ? 2 : EVV(emu) == 'e' ? 3 : 1,
	EVV(emu) == 'e' ? __CPROVER_old(emu->thread->cpu) : emu->thread->cpu, NEWST(EVV(emu))))
/* create ('C') is accepted in any state iff it carries its declared 12-byte payload, and changes nothing (frame) */
__CPROVER_ensures(EVV(emu) != 'C' || g_cpu_calls == __CPROVER_old(g_cpu_calls))
__CPROVER_ensures(RET == 0 ? g_err == __CPROVER_old(g_err) : g_err > __CPROVER_old(g_err))
;

void h_pre_thread(void)
{
	struct emu *emu;
	ALL_WITNESS_OFF; WITNESS_ON(pre_thread);
	int r = pre_thread(emu);
	if (r == 0 && w_v == 'x') REACH("OHx accepted");
	if (r != 0 && w_v == 'c' && w_state == TH_ST_PAUSED) REACH("OHc on a paused thread refused");
	if (r != 0 && !IS_FSM_EV(w_v)) REACH("unknown OH value refused");
	if (r == 0 && w_v == 'C') REACH("OHC accepted");
	if (r != 0 && w_v == 'C') REACH("OHC with a wrong payload size refused");
	if (r == 0 && w_v == 'w') REACH("OHw accepted");
	if (r == 0 && w_v == 'e') REACH("OHe accepted");
	if (r != 0 && w_v == 'r' && w_state == TH_ST_PAUSED) REACH("legal OHr refused by a lower layer");
}
