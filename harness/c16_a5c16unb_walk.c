/* C16 / C19 -- ovnisort.c: the functions that walk a region of the stream buffer event by event
 * (count_events, find_min_clock, index_events, write_events, rebuild_ring) -- UNBOUNDED: loop contracts
 * (loops/c16_a5c16unb_walk.json), region of symbolic size (<= 2^40 bytes) holding any number of events of any
 * legal size (12, 14..28 bytes, jumbo 16 + n bytes), ARBITRARY bytes otherwise.
 *
 * What the functions assume from their callers (taken from the call sites in execute_sort_plan / sort_buf):
 * the region [src, end) is a concatenation of WHOLE events -- every event of it was delivered by
 * stream_step(), which refuses an event that does not fit in the stream (event_size_at_offset: header, then
 * the jumbo size field, then the whole event must fit; size <= INT32_MAX), and the region ends at the start
 * of another delivered event (sp->next).  Formally REGION_WF(0) with
 *     REGION_WF(pos) := pos == total  ||  (total - pos >= 12  &&  (jumbo(pos) => total - pos >= 16)  &&
 *                       size(pos) <= total - pos  &&  size(pos) <= INT32_MAX  &&  REGION_WF(pos + size(pos)))
 * This inductive precondition has no quantifier-free closed form.  It is supplied LAZILY, conjunct by
 * conjunct, by the monitor below: ovni_ev_size() (rt/ovni.c, outside the unit; its contract is proved in C01
 * and C19) is the only way the walkers learn a size, so the monitor
 *   (1) keeps ITS OWN cursor g_chain (0, then += size of the event there -- independent of the code),
 *   (2) ASSERTS that the code asks for the size of exactly the event at g_chain, and only while
 *       g_chain < total (the walk visits exactly the event boundaries, in order, never at/after the end),
 *   (3) ASSUMES the conjunct of REGION_WF at g_chain (a consequence of REGION_WF(0), because g_chain is a
 *       chain position by (1)), and "the region holds exactly g_n events" in the same lazy form,
 *   (4) computes the size from the region BYTES (flags nibble / 32-bit jumbo size field, byte-exact reads),
 *   (5) maintains the inductive ghosts the contracts are stated with: g_cnt (events handed out), g_min /
 *       g_min_at (smallest clock so far and where), and a single-event observer (g_k: arbitrary event
 *       index; g_kpos, g_kclk: where that event starts and its clock).
 * Everything else (every read of the code itself: ev->header.clock, memcpy of event bytes, table cells) is
 * checked by CBMC's pointer checks against the exact-size objects: a step outside [0, total) fails.  */
int g_no_die;
#ifdef A5_DIE_REACH
#define VERIF_DIE_HOOK do { __CPROVER_assert(!g_no_die, "die() reached although the contract excludes it"); __CPROVER_assert(0, "REACH: die() reached where the contract allows it"); } while (0)
#else
#define VERIF_DIE_HOOK __CPROVER_assert(!g_no_die, "die() reached although the contract excludes it")
#endif
#include "prelude.h"
#include "ovni.h"

_Static_assert(sizeof(struct ovni_ev_header) == 12, "header layout");
_Static_assert(offsetof(struct ovni_ev, payload.jumbo.size) == 12, "jumbo size field");
_Static_assert(offsetof(struct ovni_ev_header, clock) == 4, "clock offset");

#define A5_MAXBYTES (1L << 40)

/* ---- the region ---- */
uint8_t *g_reg;       /* ONE object of exactly g_total bytes, arbitrary content */
long g_total;         /* region size in bytes */
long g_n;             /* number of events the region holds */
/* ---- monitor state ---- */
long g_chain;         /* the monitor's own cursor: start of the next event */
long g_cnt;           /* events handed out so far */
uint64_t g_min;       /* smallest clock among them (g_cnt > 0) */
long g_min_at;        /* start of an event that has it */
long g_njumbo;        /* jumbo events seen (REACH only) */
/* ---- single-event observer ---- */
long g_k;             /* arbitrary event index, 0 <= g_k < g_n */
int g_khit;           /* the g_k-th event has been handed out */
long g_kpos;          /* where it starts */
long g_ksz;           /* its size */
uint64_t g_kclk;      /* its clock */

#define RD32(p) (*(const uint32_t *) (p))
#define RD64(p) (*(const uint64_t *) (p))
#define NORMAL_SIZE(fl) (12L + ((fl) & 0x0f) + (((fl) & 0x0f) != 0))

#ifdef A5_REAL_SIZE
/* C19 variant: the REAL ovni_ev_size / ovni_payload_size / get_jumbo_payload_size (rt/ovni.c) also run on the
 * region bytes and must return the size computed by the monitor.  Exception (CBMC artefact, see c19_stream.c):
 * `ev->payload.jumbo.size` is checked as an access to the whole 16-byte payload union, so the real function is
 * not run on a jumbo event that has fewer than 28 bytes of room (the monitor's byte-exact reads cover it). */
#define ovni_ev_size a5_real_ovni_ev_size
#include "ovni.c"          /* the real /repo/src/rt/ovni.c */
#undef ovni_ev_size
#endif

int
ovni_ev_size(const struct ovni_ev *ev)
{
	VASSERT(g_chain < g_total, "the size is asked only of an event that starts inside the region");
	VASSERT((const uint8_t *) ev == g_reg + g_chain, "the walk visits exactly the event boundaries, in order");
	long avail = g_total - g_chain;
	/* REGION_WF conjunct at g_chain (caller's guarantee: stream_step delivered this event) */
	__CPROVER_assume(avail >= 12);
	const uint8_t *q = g_reg + g_chain;       /* == ev (asserted above); reads through g_reg are 10x cheaper than through ev */
	uint8_t fl = q[0];
	long sz;
	if (fl & OVNI_EV_JUMBO) {
		__CPROVER_assume(avail >= 16);
		sz = 16L + (long) RD32(q + 12);
		g_njumbo++;
	} else {
		sz = NORMAL_SIZE(fl);
	}
	__CPROVER_assume(sz <= avail && sz <= INT32_MAX);
	__CPROVER_assume(sz == avail || avail - sz >= 12);     /* header room of the next event (its own conjunct) */
	__CPROVER_assume((g_cnt + 1 == g_n) == (sz == avail));  /* the region holds exactly g_n events */
#ifdef A5_REAL_SIZE
	if (!((fl & OVNI_EV_JUMBO) && avail < 28))
		VASSERT(a5_real_ovni_ev_size((const struct ovni_ev *) q) == sz, "the real ovni_ev_size returns the size the trace format defines");
#endif
	uint64_t clk = RD64(q + 4);
	if (g_cnt == 0 || clk < g_min) { g_min = clk; g_min_at = g_chain; }
	if (g_cnt == g_k) { g_khit = 1; g_kpos = g_chain; g_ksz = sz; g_kclk = clk; }
	g_chain += sz;
	g_cnt++;
	return (int) sz;
}
ssize_t pwrite(int fd, const void *buf, size_t count, off_t offset) { (void) fd; (void) buf; (void) offset; (void) count; return nondet_long(); }
struct stream;
int stream_step(struct stream *stream) { (void) stream; return nondet_int(); }
struct ovni_ev g_cur_ev;
struct ovni_ev *stream_ev(struct stream *stream) { (void) stream; return &g_cur_ev; }
#ifndef A5_REAL_SIZE
uint64_t ovni_ev_get_clock(const struct ovni_ev *ev) { return ev->header.clock; }
#endif

#define main ovnisort_main
#include "ovnisort.c"          /* the real /repo/src/emu/ovnisort.c */
#undef main

#define RV __CPROVER_return_value
#define OLD(e) __CPROVER_old(e)

/* the region object and the monitor at its start */
#define REGION_OBJ (12 <= g_total && g_total <= A5_MAXBYTES && __CPROVER_is_fresh(g_reg, (size_t) g_total))
#define MONITOR_INIT (g_chain == 0 && g_cnt == 0 && g_khit == 0 && g_njumbo == 0 && 1 <= g_n && g_n <= g_total / 12 && 0 <= g_k && g_k < g_n)
#define MONITOR_FRAME g_chain, g_cnt, g_min, g_min_at, g_njumbo, g_khit, g_kpos, g_ksz, g_kclk
/* the whole region was walked, event by event */
#define WALK_DONE (g_chain == g_total && g_cnt == g_n && g_khit == 1 && 0 <= g_kpos && g_kpos <= g_total && g_ksz >= 12 && g_ksz <= g_total - g_kpos)

/* ================================================================= count_events */
/* returns the number of events of the region (the inductive count of the monitor: one per boundary, from
 * src to exactly end); reads nothing outside the region, writes nothing */
long w_total, w_n;
WITNESS(count_events);
long c_count_events(uint8_t *src, uint8_t *end)
__CPROVER_requires(REGION_OBJ)
__CPROVER_requires(__CPROVER_pointer_equals(src, g_reg))
__CPROVER_requires(__CPROVER_pointer_equals(end, g_reg + g_total))
__CPROVER_requires(MONITOR_INIT && WBIND(count_events, w_total == g_total && w_n == g_n))
__CPROVER_assigns(MONITOR_FRAME)
__CPROVER_ensures(RV == g_n)
__CPROVER_ensures(WALK_DONE)
;
void h_count_events(void)
{
	uint8_t *src, *end;
	WITNESS_ON(count_events);
	g_no_die = 1;
	long n = count_events(src, end);
	REACH("count_events returns");
	if (n == 1) REACH("a single event");
	if (n >= 1000 && g_njumbo >= 1 && g_ksz == 28 && g_k == 500) REACH("a thousand events or more, jumbo events among them, observed event 500 of 28 bytes");
	if (n == 2 && w_total == 16 + 0x7fffffefL + 12) REACH("largest jumbo event that stream_step admits");
}

/* ================================================================= find_min_clock */
/* the smallest clock (unsigned) of the events of the region: <= the clock of the arbitrary observed event,
 * and the clock of some event (g_min_at) */
WITNESS(find_min_clock);
uint64_t c_find_min_clock(uint8_t *src, uint8_t *end)
__CPROVER_requires(REGION_OBJ)
__CPROVER_requires(__CPROVER_pointer_equals(src, g_reg))
__CPROVER_requires(__CPROVER_pointer_equals(end, g_reg + g_total))
__CPROVER_requires(MONITOR_INIT && WBIND(find_min_clock, w_total == g_total && w_n == g_n))
__CPROVER_assigns(MONITOR_FRAME)
__CPROVER_ensures(WALK_DONE)
__CPROVER_ensures(RV == g_min)
__CPROVER_ensures(RV <= g_kclk)
__CPROVER_ensures(0 <= g_min_at && g_min_at <= g_total - 12)
;
void h_find_min_clock(void)
{
	uint8_t *src, *end;
	WITNESS_ON(find_min_clock);
	g_no_die = 1;
	uint64_t m = find_min_clock(src, end);
	if (g_n >= 100 && g_k == 57 && g_min_at == g_kpos && g_njumbo >= 2 && m == g_kclk) REACH("the minimum is event 57 of a hundred or more");
	if (g_n >= 3 && g_k == 1 && g_min_at == 0 && m == 0xffffffffffffffffUL && g_kclk == m) REACH("all clocks at the largest value: the first event is reported");
}

/* ================================================================= index_events */
/* table[k] points at the k-th event of the region, for the arbitrary observed k (g_k); n == number of events
 * of the region (the call site passes the result of count_events on the same bytes) */
WITNESS(index_events);
void c_index_events(struct ovni_ev **table, long n, uint8_t *buf)
__CPROVER_requires(REGION_OBJ)
__CPROVER_requires(__CPROVER_pointer_equals(buf, g_reg))
__CPROVER_requires(MONITOR_INIT && n == g_n && WBIND(index_events, w_total == g_total && w_n == g_n))
__CPROVER_requires(__CPROVER_is_fresh(table, (size_t) n * sizeof(struct ovni_ev *)))
__CPROVER_assigns(MONITOR_FRAME, __CPROVER_object_whole(table))
__CPROVER_ensures(WALK_DONE)
__CPROVER_ensures(table[g_k] == (struct ovni_ev *) (g_reg + g_kpos))
;
void h_index_events(void)
{
	struct ovni_ev **table; long n; uint8_t *buf;
	WITNESS_ON(index_events);
	g_no_die = 1;
	index_events(table, n, buf);
	if (g_n >= 1000 && g_k == 999 && g_njumbo >= 1 && g_kpos > 12 * 999) REACH("event 999 of a thousand or more indexed, sizes mixed");
	if (g_n == 1 && g_ksz == g_total) REACH("a single event");
}

/* ================================================================= rebuild_ring */
/* After the region [first, last) has been rewritten, the ring positions start .. tail-1 (circular) are re-pointed
 * to the consecutive events of the region: position start+j -> j-th event.  Returns iff the region holds exactly
 * as many events as there are positions (dies otherwise); cells outside start .. tail-1 keep their value.
 * Observers: the g_k-th event (cell start+g_k), and an arbitrary cell g_c. */
#define RING_MAXSIZE (1L << 40)
#define RDIST(from, to, sz) ((to) >= (from) ? (to) - (from) : (to) - (from) + (sz))
#define RCELL(from, k, sz) ((k) < (sz) - (from) ? (from) + (k) : (from) + (k) - (sz))
long g_c; struct ovni_ev *g_cold;     /* arbitrary ring cell and its old content */
long g_npos;                          /* ring positions to re-point: RDIST(start, tail) */
long w_rr_start, w_rr_tail, w_rr_size;
WITNESS(rebuild_ring);
void c_rebuild_ring(struct ring *r, long long start, struct ovni_ev *first, struct ovni_ev *last)
__CPROVER_requires(REGION_OBJ)
__CPROVER_requires(__CPROVER_pointer_equals(first, (struct ovni_ev *) g_reg))
__CPROVER_requires(__CPROVER_pointer_equals(last, (struct ovni_ev *) (g_reg + g_total)))
__CPROVER_requires(__CPROVER_is_fresh(r, sizeof(struct ring)))
__CPROVER_requires(1 <= r->size && r->size <= RING_MAXSIZE && __CPROVER_is_fresh(r->ev, (size_t) r->size * sizeof(struct ovni_ev *)))
__CPROVER_requires(0 <= r->tail && r->tail < r->size && 0 <= start && start < r->size)
__CPROVER_requires(g_chain == 0 && g_cnt == 0 && g_khit == 0 && g_njumbo == 0 && 1 <= g_n && g_n <= g_total / 12 && 0 <= g_k && g_k < g_n)
__CPROVER_requires(g_npos == RDIST(start, r->tail, r->size) && 0 <= g_c && g_c < r->size && g_cold == r->ev[g_c])
/* it must not die when the counts agree (the die hook asserts !g_no_die) */
__CPROVER_requires(g_no_die == (g_npos == g_n))
__CPROVER_requires(WBIND(rebuild_ring, w_rr_start == start && w_rr_tail == r->tail && w_rr_size == r->size && w_total == g_total && w_n == g_n))
__CPROVER_assigns(MONITOR_FRAME, __CPROVER_object_whole(r->ev), g_died)
/* returns only if the region holds exactly one event per ring position from start to tail */
__CPROVER_ensures(g_npos == g_n && WALK_DONE)
/* position start+g_k now points at the g_k-th event of the region */
__CPROVER_ensures(r->ev[RCELL(start, g_k, r->size)] == (struct ovni_ev *) (g_reg + g_kpos))
/* the other cells are untouched */
__CPROVER_ensures(RDIST(start, g_c, r->size) < g_npos || r->ev[g_c] == g_cold)
;
void h_rebuild_ring(void)
{
	struct ring *r; long long start; struct ovni_ev *first, *last;
	WITNESS_ON(rebuild_ring);
	rebuild_ring(r, start, first, last);
	REACH("rebuild_ring returns");
	if (w_rr_tail < w_rr_start && g_n >= 100 && g_k == 70 && w_rr_start + 70 >= w_rr_size && g_njumbo >= 1) REACH("positions wrap around the end of the ring, observed event beyond the wrap");
	if (g_n == w_rr_size - 1 && g_n >= 5) REACH("whole window re-pointed");
}
