/* C09 / C10 -- relocation of a finished stream from the temporary to the final directory
 * (src/rt/ovni.c: move_thread_to_final, move_thdir_to_final, try_clean_dir) on the ghost
 * file system of c09_fs.h.  Groups built with -DC09_CRASH assert the C09 crash invariant at
 * every call into the file system (and at die()), the others the C10 no-loss invariant. */
#include "c09_fs.h"
#include "ovni.c"

/* final/stream.obs holds every flushed byte.  tmpdir mode: it is a complete copy.  Direct
 * mode: every byte the thread produced has been handed to write(2) and none is pending. */
static int c09_obs_final_ok(void)
{
	if (rproc.move_to_final)
		return c09_state(T_FIN, F_OBS) == S_COMPLETE;
	return g_file_len == g_total && rthread.evlen == 0;
}

#define FID(p) ((p)[1] == 'o' ? F_OBS : (p)[1] == 'j' ? F_JSON : F_AUX)
#define HAD_BOUND (g_had[0] == (g_st[T_TMP][0] == S_COMPLETE) && g_had[1] == (g_st[T_TMP][1] == S_COMPLETE) \
	&& g_had[2] == (g_st[T_TMP][2] == S_COMPLETE))
#define OLD(x) __CPROVER_old(x)
#define RV __CPROVER_return_value

/* ------------------------------------------------------------------------------------------
 * move_thread_to_final(src = tmp/<file>, dst = final/<file>)                            (C10)
 *  - at every call into the FS and at exit: the original is complete in tmp or in final
 *  - returns 0  <=>  no FS call failed (incl. short counts, fclose of the copy, remove)
 *  - returns 0  ==>  tmp copy gone; if tmp held the original: final copy complete (byte-exact
 *    at the arbitrary position g_pos, full length, closed successfully)
 *  - returns != 0 ==> a diagnostic was issued (err)
 *  - no other file changes state
 */
int w_id, w_src_state, w_dst_state;
WITNESS(move_thread_to_final);
int c_move_thread_to_final(const char *src, const char *dst)
__CPROVER_requires(__CPROVER_is_fresh(src, 3) && __CPROVER_is_fresh(dst, 3))
__CPROVER_requires(src[0] == TAG_TMP && dst[0] == TAG_FIN && src[1] == dst[1] && src[2] == 0 && dst[2] == 0)
__CPROVER_requires(src[1] == 'o' || src[1] == 'j' || src[1] == 'a')
__CPROVER_requires(FS_WF && FS_QUIET && DIAG_PRE && HAD_BOUND)
__CPROVER_requires(rproc.move_to_final == 1)
/* C09 context: the metadata is moved only when the events are already complete in final */
__CPROVER_requires(src[1] != 'j' || !g_jfin[T_TMP] || g_st[T_FIN][F_OBS] == S_COMPLETE)
/* the final directory does not hold a finished-looking stream.json (of an earlier run) while the events are (re)written */
__CPROVER_requires(!(g_st[T_FIN][F_JSON] >= S_MAYBE && g_jfin[T_FIN]) || (src[1] != 'o' && g_st[T_FIN][F_OBS] == S_COMPLETE))
__CPROVER_requires(WBIND(move_thread_to_final, w_id == FID(src) && w_src_state == g_st[T_TMP][FID(src)] && w_dst_state == g_st[T_FIN][FID(src)]))
__CPROVER_assigns(FS_FRAME, DIAG_FRAME)
__CPROVER_ensures((RV == 0) == (g_fsfault == 0))
__CPROVER_ensures(RV == 0 || g_err > OLD(g_err))
__CPROVER_ensures(!g_out_open)
__CPROVER_ensures(RV != 0 || g_st[T_TMP][FID(src)] == S_ABSENT)
__CPROVER_ensures(RV != 0 || !g_had[FID(src)] || g_st[T_FIN][FID(src)] == S_COMPLETE)
__CPROVER_ensures(INV_NOLOSS)
__CPROVER_ensures(INV_CRASH)
/* frame on the other files */
__CPROVER_ensures(FID(src) == F_OBS || (g_st[T_TMP][F_OBS] == OLD(g_st[T_TMP][F_OBS]) && g_st[T_FIN][F_OBS] == OLD(g_st[T_FIN][F_OBS])))
__CPROVER_ensures(FID(src) == F_JSON || (g_st[T_TMP][F_JSON] == OLD(g_st[T_TMP][F_JSON]) && g_st[T_FIN][F_JSON] == OLD(g_st[T_FIN][F_JSON])))
__CPROVER_ensures(FID(src) == F_AUX || (g_st[T_TMP][F_AUX] == OLD(g_st[T_TMP][F_AUX]) && g_st[T_FIN][F_AUX] == OLD(g_st[T_FIN][F_AUX])))
;

void h_move_thread_to_final(void)
{
	const char *src, *dst;
	WITNESS_ON(move_thread_to_final);
	int r = move_thread_to_final(src, dst);
	if (r == 0) REACH("moved");
	if (r == 0 && g_had[w_id] && g_pos < g_len[w_id]) REACH("moved the original, observer inside the file");
	if (r == 0 && g_had[w_id] && g_len[w_id] > 5000) REACH("moved an original longer than four buffers");
	if (r == 0 && g_len[w_id] == 0) REACH("moved an empty file");
	if (r == 0 && w_src_state == S_PARTIAL) REACH("moved a file that was not the original");
	if (r != 0) REACH("refused");
	if (r != 0 && g_st[T_FIN][w_id] == S_COMPLETE && g_st[T_TMP][w_id] == S_COMPLETE) REACH("copied but the source could not be removed");
	if (r != 0 && g_st[T_FIN][w_id] == S_MAYBE) REACH("fclose of the copy failed");
	if (r != 0 && g_st[T_FIN][w_id] == S_PARTIAL) REACH("partial copy left in final");
	if (r != 0 && w_dst_state == S_COMPLETE && g_st[T_FIN][w_id] != S_COMPLETE) REACH("an older complete final copy was overwritten");
}

/* ------------------------------------------------------------------------------------------
 * move_thdir_to_final(thdir = tmp, thdir_final = final)                        (C09 and C10)
 * Directory of <= 3 entries (stream.obs, stream.json, one more entry of arbitrary name:
 * a further stream.* file or a non-stream entry), returned by readdir in ANY order.
 *  C09 (built with -DC09_CRASH): at every call into the FS the crash invariant holds:
 *      final/stream.json possibly complete and finished  ==>  final/stream.obs complete
 *  C10: at every call into the FS no original is lost; on return
 *      every original is complete in final and gone from tmp
 *      OR (a diagnostic was issued AND every original is complete in tmp or in final);
 *      no FS fault ==> everything moved, no diagnostic;
 *      final/stream.json exists (in any state) ==> final/stream.obs complete      [D10 repair]
 */
#define ALL_MOVED(id) (!g_had[id] || (g_st[T_FIN][id] == S_COMPLETE && g_st[T_TMP][id] == S_ABSENT))
#define XENTRY_WF (g_xkind >= 0 && g_xkind <= 2 && XNAME_WF \
	&& (g_xkind == 1) == (g_st[T_TMP][F_AUX] != S_ABSENT) \
	&& (g_xkind != 1 || XNAME_PREFIX) && (g_xkind != 2 || !XNAME_PREFIX))
int w_obs, w_json, w_aux, w_xkind, w_jfin;
WITNESS(move_thdir_to_final);
void c_move_thdir_to_final(const char *thdir, const char *thdir_final)
__CPROVER_requires(__CPROVER_is_fresh(thdir, 2) && __CPROVER_is_fresh(thdir_final, 2))
__CPROVER_requires(thdir[0] == TAG_TMP && thdir[1] == 0 && thdir_final[0] == TAG_FIN && thdir_final[1] == 0)
__CPROVER_requires(FS_WF && FS_QUIET && DIAG_PRE && HAD_BOUND && XENTRY_WF)
__CPROVER_requires(rproc.move_to_final == 1)
/* the stream was created in tmp and all its flushed bytes are there (close(fd) done, write(2) model) */
__CPROVER_requires(g_st[T_TMP][F_OBS] == S_COMPLETE)
/* the final thread directory is fresh: no metadata of an earlier run */
__CPROVER_requires(g_st[T_FIN][F_JSON] == S_ABSENT)
__CPROVER_requires(WBIND(move_thdir_to_final, w_obs == g_st[T_TMP][F_OBS] && w_json == g_st[T_TMP][F_JSON] \
	&& w_aux == g_st[T_TMP][F_AUX] && w_xkind == g_xkind && w_jfin == g_jfin[T_TMP]))
__CPROVER_assigns(FS_FRAME, DIAG_FRAME)
__CPROVER_ensures(!g_out_open)
__CPROVER_ensures(INV_NOLOSS)
__CPROVER_ensures(INV_CRASH)
__CPROVER_ensures((ALL_MOVED(F_OBS) && ALL_MOVED(F_JSON) && ALL_MOVED(F_AUX)) || g_err > OLD(g_err))
__CPROVER_ensures(g_fsfault != 0 || (ALL_MOVED(F_OBS) && ALL_MOVED(F_JSON) && ALL_MOVED(F_AUX) && g_err == OLD(g_err)))
__CPROVER_ensures(g_fsfault == 0 || g_err > OLD(g_err))
__CPROVER_ensures(g_st[T_FIN][F_JSON] == S_ABSENT || g_st[T_FIN][F_OBS] == S_COMPLETE)
;

void h_move_thdir_to_final(void)
{
	const char *thdir, *thdir_final;
	WITNESS_ON(move_thdir_to_final);
	move_thdir_to_final(thdir, thdir_final);
	REACH("move_thdir_to_final returns");
	if (g_fsfault == 0 && w_json == S_COMPLETE && w_jfin && w_xkind == 1) REACH("three stream files moved, finished");
	if (g_fsfault == 0 && w_xkind == 2) REACH("non-stream entry skipped");
	if (g_fsfault == 0 && w_json == S_ABSENT) REACH("no metadata in tmp");
	if (g_fsfault != 0 && g_st[T_FIN][F_OBS] == S_COMPLETE && g_st[T_FIN][F_JSON] == S_PARTIAL) REACH("events moved, metadata copy failed");
	if (g_fsfault != 0 && g_st[T_FIN][F_OBS] == S_PARTIAL && g_st[T_FIN][F_JSON] == S_ABSENT) REACH("events copy failed, metadata left in tmp");
	if (g_fsfault != 0 && g_st[T_FIN][F_OBS] == S_COMPLETE && g_st[T_TMP][F_OBS] == S_COMPLETE) REACH("events copied but not removed, metadata left in tmp");
}
