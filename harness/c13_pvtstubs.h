/* C13 -- logging stubs for the three Paraver writers behind pvt.c (prv.c, pcf.c, prf.c), shared by
 * c13_wiring.c and c13_system.c.  Each may fail (g_lowfail counts it); the exact contracts of the
 * real functions are proved in c13_prv.c / c13_pcf.c / c13_prf.c. */
#ifndef C13_PVTSTUBS_H
#define C13_PVTSTUBS_H
unsigned g_op;                           /* order of the calls below */
void *g_po_prv; long g_po_nrows; unsigned g_po_n;
int prv_open(struct prv *prv, long nrows, const char *path)
{ (void) path; g_op++; g_po_n++; g_po_prv = prv; g_po_nrows = nrows; if (nondet_bool()) { g_lowfail++; return -1; } return 0; }
void *g_co_pcf; unsigned g_co_n;
int pcf_open(struct pcf *pcf, char *path)
{ (void) path; g_op++; g_co_n++; g_co_pcf = pcf; if (nondet_bool()) { g_lowfail++; return -1; } return 0; }
void *g_fo_prf; long g_fo_nrows; unsigned g_fo_n;
int prf_open(struct prf *prf, const char *path, long nrows)
{ (void) path; g_op++; g_fo_n++; g_fo_prf = prf; g_fo_nrows = nrows; if (nondet_bool()) { g_lowfail++; return -1; } return 0; }
void *g_pc_prv; unsigned g_pc_n, g_pc_op;
int prv_close(struct prv *prv) { g_op++; g_pc_n++; g_pc_op = g_op; g_pc_prv = prv; if (nondet_bool()) { g_lowfail++; return -1; } return 0; }
void *g_cc_pcf; unsigned g_cc_n, g_cc_op;
int pcf_close(struct pcf *pcf) { g_op++; g_cc_n++; g_cc_op = g_op; g_cc_pcf = pcf; if (nondet_bool()) { g_lowfail++; return -1; } return 0; }
void *g_fc_prf; unsigned g_fc_n, g_fc_op;
int prf_close(struct prf *prf) { g_op++; g_fc_n++; g_fc_op = g_op; g_fc_prf = prf; if (nondet_bool()) { g_lowfail++; return -1; } return 0; }
void *g_pa_prv; int64_t g_pa_time; int g_pa_ret; unsigned g_pa_n;
int prv_advance(struct prv *prv, int64_t time) { g_pa_n++; g_pa_prv = prv; g_pa_time = time; g_pa_ret = nondet_int(); return g_pa_ret; }

#define PVT_ZERO (g_op == 0 && g_po_n == 0 && g_co_n == 0 && g_fo_n == 0 && g_pc_n == 0 && g_cc_n == 0 && g_fc_n == 0 && g_pa_n == 0)
#define PVT_FRAME g_op, g_po_n, g_po_prv, g_po_nrows, g_co_n, g_co_pcf, g_fo_n, g_fo_prf, g_fo_nrows, \
	g_pc_n, g_pc_op, g_pc_prv, g_cc_n, g_cc_op, g_cc_pcf, g_fc_n, g_fc_op, g_fc_prf
#endif
