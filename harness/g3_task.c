/* G3 (gap closure for C07 / C13) -- task types of the real src/emu/task.c
 *
 *   task_type_create       type id -> task_type {id, label, gid}; id 0 and a duplicate id are refused; the label
 *                          (jumbo payload of the trace, any length) is stored through a write bounded by the
 *                          label buffer, a too long label is refused, an empty one gets a non-empty placeholder;
 *                          gid = task_get_type_gid(STORED label); the type is inserted under its id
 *   task_get_type_gid      gid = f(hash of exactly the label's bytes), PCF_RESERVED <= gid <= INT_MAX: never 0
 *                          ("nothing" stays distinguishable on the type timeline), never a reserved value, and
 *                          (int) gid == gid, so the value shown on the type channel (C07: task->type->gid) is the
 *                          value labelled in the PCF (C13: pcf_add_value(type, (int) gid, label))
 *   task_create_pcf_types  afterwards every task type of the list has its gid labelled with its own label in the
 *                          PCF type; a gid already labelled with a DIFFERENT text is a collision: refused
 *   task_find / task_type_find / task_get_id / task_get_top   the thin wrappers
 *
 * Trusted base (plan "trusted"): uthash is not verified.  HASH_FIND_INT is rebound to a one-cell map model (the
 * table is observed at one key; the lookup logs the head and key it was asked for and returns the cell g_hf_res),
 * HASH_ADD_INT to a ghost insertion log (c07_body.c's model + hh.next = NULL: appended at the tail), HASH_VALUE
 * (Jenkins hash) to an oracle that logs (key, keylen) and returns the arbitrary constant g_hash_val -- except in
 * the G3_REAL_HASH group, which runs the real HASH_JEN on bounded strings.  calloc may fail (zero-filled).
 * snprintf: exact position of the terminator (min(len, n-1)), first byte exact, "%s" recognised from the literal
 * format, bytes in between dropped (G3_STR: exact copy of bounded strings). */
#include "prelude.h"
#include "uthash.h"

#define RV __CPROVER_return_value
#define OLD(e) __CPROVER_old(e)

/* ---- uthash ---- */
struct g3_hadd { unsigned n; void *head; void *item; uint32_t key; } g_hadd;
#undef HASH_ADD_INT
#define HASH_ADD_INT(head_, field_, add_) { g_hadd.n++; g_hadd.head = (void *) &(head_); g_hadd.item = (void *) (add_); \
	g_hadd.key = (uint32_t) (add_)->field_; (add_)->hh.next = NULL; if ((head_) == NULL) (head_) = (add_); }
struct g3_hfind { unsigned n; const void *head; uint32_t key; } g_hfind;
void *g_hf_res;            /* value of the observed cell (NULL: key absent) */
#undef HASH_FIND_INT
#define HASH_FIND_INT(head_, findint_, out_) { g_hfind.n++; g_hfind.head = (const void *) (head_); \
	g_hfind.key = (uint32_t) *(findint_); (out_) = g_hf_res; }
struct g3_hash { unsigned n; const void *key; size_t len; } g_hash;
struct g3_strlen { unsigned n; const char *arg; } g_strlen;
uint32_t g_hash_val;       /* oracle: the hash of the key */
size_t g_strlen_val;       /* oracle: the length of the key */
#ifndef G3_REAL_HASH
#undef HASH_VALUE
#define HASH_VALUE(keyptr_, keylen_, hashv_) { g_hash.n++; g_hash.key = (const void *) (keyptr_); g_hash.len = (keylen_); (hashv_) = g_hash_val; }
static inline size_t g3_strlen(const char *s) { g_strlen.n++; g_strlen.arg = s; return g_strlen_val; }
#define G3_STRLEN_ORACLE 1
#endif

/* ---- lower layers: calloc, snprintf ---- */
unsigned g_lowfail;
void *calloc(size_t n, size_t sz)
{
	if (nondet_bool()) { g_lowfail++; return NULL; }
	size_t tot = n * sz;
	if (n != 0 && tot / n != sz) { g_lowfail++; return NULL; }
	char *p = malloc(tot);
	if (p == NULL) { g_lowfail++; return NULL; }
	if (tot > 0) __CPROVER_array_set(p, 0);
	return p;
}

#include "body.c"          /* the real body.c: body_get_top / body_get_running (prelude snprintf inside) */
#include "thread.h"        /* headers of task.c, before snprintf is rebound (value.h has inline snprintf uses) */
#include "task.h"
#include "utlist.h"

#ifndef G3_SMAX
#define G3_SMAX 9          /* G3_STR: strings of at most G3_SMAX bytes including the terminator */
#endif
struct g3_sn { unsigned n; char *dst; size_t cap; size_t size; int is_s; const void *src; } g_sn;
static inline int g3_snprintf_s(char *buf, size_t cap, size_t n, const char *fmt, const char *s)
{
	g_sn.n++; g_sn.dst = buf; g_sn.cap = cap; g_sn.size = n; g_sn.src = s;
	g_sn.is_s = (fmt[0] == '%' && fmt[1] == 's' && fmt[2] == '\0');
#ifdef G3_STR
	size_t len = 0;
	while (s[len] != '\0') len++;
	if (n > 0) {
		size_t k = 0;
		for (; k < len && k + 1 < n; k++) buf[k] = s[k];
		buf[k] = '\0';
	}
	if (len >= n) g_lowfail++;
	return (int) len;
#else
	int r = nondet_int();                 /* strlen(s): any length, 0 exactly for the empty string */
	__CPROVER_assume(r >= 0 && (r == 0) == (s[0] == '\0'));
	if (n > 0) {
		size_t k = (size_t) r < n ? (size_t) r : n - 1;
		if (k > 0) buf[0] = s[0];
		buf[k] = '\0';
	}
	if ((size_t) r >= n) g_lowfail++;     /* output truncated */
	return r;
#endif
}
static inline int g3_snprintf_u(char *buf, size_t cap, size_t n, const char *fmt, uint32_t u)
{
	(void) u;
	g_sn.n++; g_sn.dst = buf; g_sn.cap = cap; g_sn.size = n; g_sn.src = NULL; g_sn.is_s = 0;
	/* model applicability: the format starts with literal text, so the output is not empty */
	__CPROVER_assert(fmt[0] != '%' && fmt[0] != '\0', "snprintf model: format starts with literal text");
	int r = nondet_int();
	__CPROVER_assume(r >= 1);
	if (n > 0) {
		size_t k = (size_t) r < n ? (size_t) r : n - 1;
		if (k > 0) buf[0] = fmt[0];
		buf[k] = '\0';
	}
	if ((size_t) r >= n) g_lowfail++;
	return r;
}
#undef snprintf
#define snprintf(buf, n, fmt, arg) _Generic((arg), const char *: g3_snprintf_s, char *: g3_snprintf_s, default: g3_snprintf_u) \
	((buf), sizeof(buf), (n), (fmt), (arg))
#ifdef G3_STRLEN_ORACLE
#define strlen(s) g3_strlen(s)
#endif

/* ---- pv/pcf.c is outside the unit: a ghost PCF type (value -> label), faithful to pcf_add_value: a value that is
 * already present is refused, otherwise the (value, label text) pair is appended; any call may fail ---- */
#include "pv/pcf.h"
#define PCFN 4
struct g3_pcf { int n; int nadd; int nfind; struct pcf_type *type; } g_pcf;
/* one object per slot, never an array of them (symbolic indices into an array of structs are expensive) */
struct pcf_value g_pv0, g_pv1, g_pv2, g_pv3;
#define PCF_SLOT(k) ((k) == 0 ? &g_pv0 : (k) == 1 ? &g_pv1 : (k) == 2 ? &g_pv2 : &g_pv3)
int g_pcf_badtype;
static struct pcf_value *g3_pcf_lookup(int value)
{
	if (g_pcf.n > 0 && g_pv0.value == value) return &g_pv0;
	if (g_pcf.n > 1 && g_pv1.value == value) return &g_pv1;
	if (g_pcf.n > 2 && g_pv2.value == value) return &g_pv2;
	if (g_pcf.n > 3 && g_pv3.value == value) return &g_pv3;
	return NULL;
}
struct pcf_value *pcf_find_value(struct pcf_type *type, int value)
{
	g_pcf.nfind++;
	if (type != g_pcf.type) g_pcf_badtype = 1;
	return g3_pcf_lookup(value);
}
struct pcf_value *pcf_add_value(struct pcf_type *type, int value, const char *label)
{
	g_pcf.nadd++;
	if (type != g_pcf.type) g_pcf_badtype = 1;
	if (g3_pcf_lookup(value) != NULL) { verif_err(); return NULL; }
	if (nondet_bool() || g_pcf.n >= PCFN) { g_lowfail++; verif_err(); return NULL; }
	struct pcf_value *v = PCF_SLOT(g_pcf.n);
	v->value = value;
	v->label[0] = label[0]; v->label[1] = label[0] ? label[1] : '\0'; v->label[2] = '\0';   /* labels of <= 2 characters */
	g_pcf.n++;
	return v;
}

#include "task.c"          /* the real /repo/src/emu/task.c */
#undef strlen

_Static_assert(PCF_RESERVED == 1000, "reserved PCF values");
/* what the code guarantees about the gid, as a function of the label's hash h */
#define GID31(h) (((uint32_t) (h) + 666u) & 0x7fffffffu)
#define GID_OF(h) (GID31(h) < (uint32_t) PCF_RESERVED ? GID31(h) + (uint32_t) PCF_RESERVED : GID31(h))
#define GID_OK(g) ((g) >= (uint32_t) PCF_RESERVED && (g) <= 0x7fffffffu)   /* not 0, not reserved, an int */
#define CNT_PRE (g_hadd.n < 1000000u && g_hfind.n < 1000000u && g_hash.n < 1000000u && g_strlen.n < 1000000u && \
	g_sn.n < 1000000u && g_lowfail < 1000000u && DIAG_PRE)

/* =====================================================================================================
 * task_find / task_type_find: the wrapper returns the uthash lookup of exactly (table, id)
 * (this is what c07_task.c's ASSUMED contracts c_task_find / c_task_type_find say)
 * ===================================================================================================== */
struct task *c_task_find(struct task *tasks, uint32_t task_id)
__CPROVER_requires(g_hf_res == NULL || __CPROVER_is_fresh(g_hf_res, sizeof(struct task)))
__CPROVER_requires(CNT_PRE)
__CPROVER_assigns(g_hfind)
__CPROVER_ensures(g_hfind.n == OLD(g_hfind.n) + 1 && g_hfind.head == (const void *) tasks && g_hfind.key == task_id)
__CPROVER_ensures(__CPROVER_pointer_equals(RV, (struct task *) g_hf_res))
;
void h_task_find(void)
{
	struct task *tasks; uint32_t id;
	struct task *t = task_find(tasks, id);
	if (t != NULL && id == 7) REACH("task 7 found");
	if (t == NULL) REACH("task not found");
}
struct task_type *c_task_type_find(struct task_type *types, uint32_t type_id)
__CPROVER_requires(g_hf_res == NULL || __CPROVER_is_fresh(g_hf_res, sizeof(struct task_type)))
__CPROVER_requires(CNT_PRE)
__CPROVER_assigns(g_hfind)
__CPROVER_ensures(g_hfind.n == OLD(g_hfind.n) + 1 && g_hfind.head == (const void *) types && g_hfind.key == type_id)
__CPROVER_ensures(__CPROVER_pointer_equals(RV, (struct task_type *) g_hf_res))
;
void h_task_type_find(void)
{
	struct task_type *types; uint32_t id;
	struct task_type *t = task_type_find(types, id);
	if (t != NULL && id == 7) REACH("type 7 found");
	if (t == NULL) REACH("type not found");
}

/* =====================================================================================================
 * task_get_id / task_get_top
 * ===================================================================================================== */
uint32_t c_task_get_id(struct task *task)
__CPROVER_requires(__CPROVER_is_fresh(task, sizeof(*task)))
__CPROVER_assigns()
__CPROVER_ensures(RV == task->id)
;
void h_task_get_id(void)
{
	struct task *task;
	uint32_t id = task_get_id(task);
	if (id == 0xffffffffu) REACH("largest task id");
	if (id == 1) REACH("task id 1");
}
struct body *c_task_get_top(struct task_stack *stack)
__CPROVER_requires(__CPROVER_is_fresh(stack, sizeof(*stack)))
__CPROVER_assigns()
/* the body on top of the thread's stack, whatever its state (NULL: empty stack) */
__CPROVER_ensures(RV == stack->body_stack.top)
;
void h_task_get_top(void)
{
	struct task_stack *stack;
	struct body *b = task_get_top(stack);
	if (b != NULL) REACH("a body on top");
	if (b == NULL) REACH("empty stack");
}

/* =====================================================================================================
 * task_get_type_gid (hash oracle: every label, every hash value)
 * ===================================================================================================== */
#ifndef G3_REAL_HASH
uint32_t w_hash;
WITNESS(task_get_type_gid);
uint32_t c_task_get_type_gid(const char *label)
__CPROVER_requires(__CPROVER_is_fresh(label, 1))
__CPROVER_requires(CNT_PRE && WBIND(task_get_type_gid, w_hash == g_hash_val))
__CPROVER_assigns(g_hash, g_strlen)
/* derived from exactly the label: the hash of its strlen(label) bytes, taken once */
__CPROVER_ensures(g_hash.n == OLD(g_hash.n) + 1 && g_hash.key == (const void *) label)
__CPROVER_ensures(g_strlen.n == OLD(g_strlen.n) + 1 && g_strlen.arg == label && g_hash.len == g_strlen_val)
/* never 0 ("nothing"), never a reserved value, representable as the int the PCF stores */
__CPROVER_ensures(GID_OK(RV))
__CPROVER_ensures(RV == GID_OF(g_hash_val))
;
void h_task_get_type_gid(void)
{
	const char *label;
	WITNESS_ON(task_get_type_gid);
	uint32_t g = task_get_type_gid(label);
	if (g == 1000) REACH("smallest gid");
	if (g == 0x7fffffffu) REACH("largest gid");
	if (w_hash == 0xfffffd66u) REACH("hash + 666 wraps to 0: moved out of the reserved range");
	if (w_hash == 0x80000000u) REACH("hash with the top bit set");
}

/* =====================================================================================================
 * task_type_create
 * ===================================================================================================== */
#define NEWTYPE ((struct task_type *) g_hadd.item)
#ifdef G3_STR
#define LABEL_OK(s) (__CPROVER_is_fresh((s), G3_SMAX) && (s)[G3_SMAX - 1] == '\0')
static int spec_str_eq(const char *a, const char *b)
{
	for (int k = 0; k < G3_SMAX; k++) {
		if (a[k] != b[k]) return 0;
		if (a[k] == '\0') return 1;
	}
	return 1;
}
#define LABEL_STORED(stored, given) spec_str_eq((stored), (given))
#else
#define LABEL_OK(s) __CPROVER_is_fresh((s), 1)
#define LABEL_STORED(stored, given) ((stored)[0] == (given)[0])
#endif
int w_dup, w_empty; uint32_t w_id; char w_c0;
WITNESS(task_type_create);
int c_task_type_create(struct task_info *info, uint32_t type_id, const char *label)
__CPROVER_requires(__CPROVER_is_fresh(info, sizeof(*info)))
__CPROVER_requires(LABEL_OK(label))
__CPROVER_requires(g_hf_res == NULL || __CPROVER_is_fresh(g_hf_res, sizeof(struct task_type)))
__CPROVER_requires(CNT_PRE)
__CPROVER_requires(WBIND(task_type_create, w_dup == (g_hf_res != NULL) && w_empty == (label[0] == '\0') && w_id == type_id && w_c0 == label[0] && w_hash == g_hash_val))
__CPROVER_assigns(info->types, g_hadd, g_hfind, g_hash, g_strlen, g_sn, g_lowfail, DIAG_FRAME)
/* accepted exactly when the id is not 0, is not yet in the table, and no lower layer failed (calloc; label too long) */
__CPROVER_ensures((RV == 0) == (g_hf_res == NULL && type_id != 0 && g_lowfail == OLD(g_lowfail)))
__CPROVER_ensures(RV == 0 || RV == -1)
/* the table is asked once, about this id */
__CPROVER_ensures(g_hfind.n == OLD(g_hfind.n) + 1 && g_hfind.head == (const void *) OLD(info->types) && g_hfind.key == type_id)
/* accepted: one new type, inserted under its id at the tail of the table */
__CPROVER_ensures(RV != 0 || (g_hadd.n == OLD(g_hadd.n) + 1 && g_hadd.head == (void *) &info->types && g_hadd.key == type_id &&
	__CPROVER_is_fresh(g_hadd.item, sizeof(struct task_type)) && NEWTYPE->id == type_id && NEWTYPE->hh.next == NULL &&
	((OLD(info->types) == NULL && info->types == NEWTYPE) || (OLD(info->types) != NULL && info->types == OLD(info->types)))))
/* the label is written once, into the type's own label buffer, bounded by that buffer */
__CPROVER_ensures(RV != 0 || (g_sn.n == OLD(g_sn.n) + 1 && g_sn.dst == NEWTYPE->label && g_sn.cap == sizeof(NEWTYPE->label) && g_sn.size <= sizeof(NEWTYPE->label)))
/* a given label is stored as given; an empty one is replaced; the stored label is never empty */
__CPROVER_ensures(RV != 0 || label[0] == '\0' || (g_sn.is_s && g_sn.src == (const void *) label && LABEL_STORED(NEWTYPE->label, label)))
__CPROVER_ensures(RV != 0 || NEWTYPE->label[0] != '\0')
/* the gid is derived from the STORED label, and is a non-zero, non-reserved int */
__CPROVER_ensures(RV != 0 || (g_hash.n == OLD(g_hash.n) + 1 && g_hash.key == (const void *) NEWTYPE->label &&
	g_strlen.arg == (const char *) NEWTYPE->label && g_hash.len == g_strlen_val))
__CPROVER_ensures(RV != 0 || (NEWTYPE->gid == GID_OF(g_hash_val) && GID_OK(NEWTYPE->gid)))
/* refused: the table is untouched and a diagnostic says why */
__CPROVER_ensures(RV == 0 || (info->types == OLD(info->types) && g_hadd.n == OLD(g_hadd.n) && g_err > OLD(g_err)))
;
void h_task_type_create(void)
{
	struct task_info *info; uint32_t type_id; const char *label;
	WITNESS_ON(task_type_create);
	int r = task_type_create(info, type_id, label);
	if (r == 0 && !w_empty) REACH("type created with the given label");
	if (r == 0 && w_empty) REACH("type created with the placeholder label");
	if (r == 0 && w_id == 0xffffffffu && w_c0 == 'x') REACH("largest type id, label x...");
	if (r != 0 && w_dup && w_id != 0) REACH("duplicate id refused");
	if (r != 0 && !w_dup && w_id == 0) REACH("type id 0 refused");
	if (r != 0 && !w_dup && w_id != 0) REACH("refused by a lower layer (calloc, label too long)");
}
#endif

/* =====================================================================================================
 * task_get_type_gid on the REAL Jenkins hash (G3_REAL_HASH, strings <= 13 characters): only the characters of
 * the label up to its terminator are read (the string ends its object), and the result satisfies GID_OK.
 * ===================================================================================================== */
#ifdef H_GID_REAL
#define RH_N 16
void h_gid_real(void)
{
	static char buf[RH_N];
	unsigned len = nondet_uchar();
	__CPROVER_assume(len <= 13);
	/* the string (len characters and the terminator) occupies the LAST bytes of its object: a read behind the
	 * terminator leaves the object (pointer check) */
	char *a = buf + (RH_N - 1 - len);
	for (int k = 0; k < RH_N - 1; k++) {
		buf[k] = nondet_char();
		if ((unsigned) k >= RH_N - 1 - len) __CPROVER_assume(buf[k] != '\0');
	}
	buf[RH_N - 1] = '\0';
	uint32_t ga = task_get_type_gid(a);
	VASSERT(GID_OK(ga), "non-zero, non-reserved, representable as int");
	if (len == 0) REACH("empty label");
	if (len == 13) REACH("13-character label (more than one hash block)");
	if (len == 4 && a[0] == 'm' && a[1] == 'a' && a[2] == 'i' && a[3] == 'n' && ga != 1000) REACH("label main");
}
#endif

/* =====================================================================================================
 * task_create_pcf_types  (<= 3 task types, labels of <= 2 characters, <= 1 value already in the PCF type)
 * ===================================================================================================== */
#ifdef H_PCF_TYPES
static int lab_eq(const char *a, const char *b)
{
	if (a[0] != b[0]) return 0;
	if (a[0] == '\0') return 1;
	if (a[1] != b[1]) return 0;
	if (a[1] == '\0') return 1;
	return a[2] == b[2];
}
/* the PCF type labels value v with the text of `label` */
static int pcf_has(int v, const char *label)
{
	struct pcf_value *e = g3_pcf_lookup(v);   /* values are unique in the model */
	return e != NULL && lab_eq(e->label, label);
}
static int pcf_count(int v)
{
	return (g_pcf.n > 0 && g_pv0.value == v) + (g_pcf.n > 1 && g_pv1.value == v) + (g_pcf.n > 2 && g_pv2.value == v) + (g_pcf.n > 3 && g_pv3.value == v);
}
uint32_t nondet_u32(void);
void h_task_create_pcf_types(void)
{
	static struct task_type t0, t1, t2;
	static char typeobj[8];
	struct task_type *T[3] = { &t0, &t1, &t2 };
	int n = nondet_int();
	__CPROVER_assume(n >= 0 && n <= 3);
	for (int i = 0; i < 3; i++) {
		T[i]->id = nondet_u32();
		T[i]->gid = nondet_u32();
		/* invariant established by task_type_create (group task_type_create): non-reserved int */
		__CPROVER_assume(GID_OK(T[i]->gid));
		T[i]->label[0] = nondet_char(); T[i]->label[1] = nondet_char(); T[i]->label[2] = '\0';
		__CPROVER_assume(T[i]->label[0] != '\0');
		T[i]->hh.next = (i + 1 < n) ? (void *) T[i + 1] : NULL;
	}
	/* the PCF type may already hold one value (e.g. the same task type of another process) */
	g_pcf.type = (struct pcf_type *) typeobj;
	g_pcf.n = nondet_bool() ? 1 : 0; g_pcf.nadd = 0; g_pcf.nfind = 0; g_pcf_badtype = 0;
	g_pv0.value = nondet_int();
	g_pv0.label[0] = nondet_char(); g_pv0.label[1] = nondet_char(); g_pv0.label[2] = '\0';
	__CPROVER_assume(g_pv0.label[0] != '\0' || g_pv0.label[1] == '\0');
	int pre_n = g_pcf.n; int pre_v = g_pv0.value;
	g_err = 0; g_lowfail = 0;
	uint32_t gid0 = t0.gid, gid1 = t1.gid, gid2 = t2.gid;

	int r = task_create_pcf_types((struct pcf_type *) typeobj, n > 0 ? &t0 : NULL);

	VASSERT(!g_pcf_badtype, "only the given PCF type is used");
	VASSERT(t0.gid == gid0 && t1.gid == gid1 && t2.gid == gid2, "the task types are not modified");
	/* collision: some type's gid is labelled with another text => refused */
	int collision = 0;
	for (int i = 0; i < 3; i++)
		if (i < n && pcf_count((int) T[i]->gid) > 0 && !pcf_has((int) T[i]->gid, T[i]->label)) collision = 1;
	if (r == 0) {
		for (int i = 0; i < 3; i++) {
			if (i >= n) continue;
			VASSERT(pcf_has((int) T[i]->gid, T[i]->label), "every task type of the list has its gid labelled with its label");
			VASSERT(pcf_count((int) T[i]->gid) == 1, "one label per value");
		}
		VASSERT(g_lowfail == 0, "accepted only if no PCF insertion failed");
		VASSERT(g_pcf.n - pre_n == g_pcf.nadd, "every insertion attempted was needed (no duplicate insertion)");
		REACH("labels written");
		if (n == 3 && g_pcf.nadd == 3) REACH("three types, three new values");
		if (n == 3 && t0.gid == t2.gid && g_pcf.nadd == 2) REACH("two types share label and gid: one value");
		if (n == 2 && pre_n == 1 && (long) pre_v == (long) t1.gid && g_pcf.nadd == 1) REACH("second type already labelled by an earlier process");
	} else {
		VASSERT(g_err > 0, "a refusal is diagnosed");
		if (collision) REACH("collision refused");
		if (!collision && g_lowfail > 0) REACH("refused by a failed PCF insertion");
	}
	VASSERT(!collision || r != 0, "a gid labelled with a different text is refused");
	VASSERT(r == 0 || collision || g_lowfail > 0, "refused only for a collision or a lower-layer failure");
}
#endif
