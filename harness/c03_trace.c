/* C03 -- src/emu/trace.c: cmp_streams, the order trace_load sorts the stream list
 * with (DL_SORT, utlist: trusted).  The player visits trace->streams in list
 * order (player_init) and the heap breaks clock ties by insertion history, so
 * the replay is independent of the nftw() enumeration order exactly when the
 * sorted list is: that rests on DL_SORT being a sort and on cmp_streams being
 * a total order on distinct relpaths, i.e. on strcmp (trusted) of relpath. */
#include "prelude.h"

#ifndef C03_REAL_STRCMP
/* strcmp is libc: trusted.  Logged model: any result; records its arguments. */
const char *g_sc_a, *g_sc_b;
int g_sc_ret;
unsigned g_sc_n;
int strcmp(const char *a, const char *b)
{
	g_sc_a = a;
	g_sc_b = b;
	g_sc_n++;
	g_sc_ret = nondet_int();
	return g_sc_ret;
}
#endif

#include "trace.c"         /* the real /repo/src/emu/trace.c */

#define RV __CPROVER_return_value

#ifndef C03_REAL_STRCMP
int w_same;
WITNESS(cmp_streams);
/* cmp_streams(a, b) IS strcmp(a->relpath, b->relpath): one call, these
 * arguments in this order, result passed through; nothing is written */
int c_cmp_streams(struct stream *a, struct stream *b)
__CPROVER_requires(__CPROVER_is_fresh(a, sizeof(*a)))
__CPROVER_requires(__CPROVER_pointer_equals(b, a) || __CPROVER_is_fresh(b, sizeof(*b)))
__CPROVER_requires(g_sc_n < 1000000u && WBIND(cmp_streams, w_same == (a == b)))
__CPROVER_assigns(g_sc_a, g_sc_b, g_sc_ret, g_sc_n)
__CPROVER_ensures(g_sc_n == __CPROVER_old(g_sc_n) + 1 && g_sc_a == a->relpath && g_sc_b == b->relpath && RV == g_sc_ret)
;
void h_cmp_streams(void)
{
	struct stream *a, *b;
	WITNESS_ON(cmp_streams);
	int r = cmp_streams(a, b);
	if (r < 0) REACH("a before b");
	if (r > 0) REACH("a after b");
	if (r == 0 && !w_same) REACH("equal");
	if (w_same) REACH("same stream");
}
#else
/* BOUNDED cross-check with CBMC's own strcmp model: on three streams whose
 * relpaths have at most RELLEN characters, cmp_streams is a total order and is
 * 0 exactly for equal strings (distinct relpaths are never tied). */
#define RELLEN 3
static int same_str(const char *x, const char *y)
{
	for (int i = 0; i <= RELLEN; i++) {
		if (x[i] != y[i])
			return 0;
		if (x[i] == '\0')
			return 1;
	}
	return 1;
}
void h_cmp_streams_order(void)
{
	struct stream *x = malloc(sizeof(struct stream));
	struct stream *y = malloc(sizeof(struct stream));
	struct stream *z = malloc(sizeof(struct stream));
	__CPROVER_assume(x != NULL && y != NULL && z != NULL);
	__CPROVER_assume(x->relpath[RELLEN] == '\0' && y->relpath[RELLEN] == '\0' && z->relpath[RELLEN] == '\0');
	int xx = cmp_streams(x, x);
	int xy = cmp_streams(x, y);
	int yx = cmp_streams(y, x);
	int yz = cmp_streams(y, z);
	int xz = cmp_streams(x, z);
	VASSERT(xx == 0, "reflexive");
	VASSERT((xy > 0) == (yx < 0) && (xy < 0) == (yx > 0), "antisymmetric");
	VASSERT((xy == 0) == same_str(x->relpath, y->relpath), "0 exactly for equal relpaths: distinct relpaths are strictly ordered");
	VASSERT(!(xy <= 0 && yz <= 0) || xz <= 0, "transitive");
	VASSERT(!(xy < 0 && yz <= 0) || xz < 0, "transitive (strict)");
	if (xy < 0 && yz < 0) REACH("strict chain");
	if (xy == 0) REACH("equal relpaths");
	if (xy > 0) REACH("x after y");
}
#endif
