/* C14 -- the per-model probe entry points model_<m>_probe of the real src/emu/<m>/setup.c (wave-6 seed C14_w6_1:
 * model_kernel_probe turned a refusal of model_version_probe into "model disabled", so a stream requiring
 * an incompatible kernel model version was emulated).
 *
 * -DC14_M=<model> selects nosv | nanos6 | nodes | mpi | tampi | openmp | kernel; the plan defines the include
 * directory.  model_version_probe (model.c; groups model_version_probe, should_enable) is replaced by "any
 * verdict in {-1, 0, 1}, logged".  Contract of model_<m>_probe: the version gate is consulted exactly once,
 * for THIS model's spec and THIS emulator, and its verdict is the result -- in particular a refusal (-1) is
 * propagated and a disabled model (0) stays disabled.  (model_ovni_probe: group model_ovni_probe_gate below.) */
#include "prelude.h"
#define C14_CAT_(a, b, c) a##b##c
#define C14_CAT(a, b, c) C14_CAT_(a, b, c)
#define C14_STR_(x) #x
#define C14_STR(x) C14_STR_(x)
#include C14_STR(C14_M/setup.c)        /* the real /repo/src/emu/<m>/setup.c */
#define M_PROBE C14_CAT(model_, C14_M, _probe)
#define M_SPEC  C14_CAT(model_, C14_M, )

#define RV __CPROVER_return_value
#define OLD(e) __CPROVER_old(e)

int g_vp_n, g_vp_ret; struct model_spec *g_vp_spec; struct emu *g_vp_emu;
int cr_model_version_probe(struct model_spec *spec, struct emu *emu)
__CPROVER_requires(1)
__CPROVER_assigns(g_vp_n, g_vp_ret, g_vp_spec, g_vp_emu)
__CPROVER_ensures(RV >= -1 && RV <= 1 && g_vp_ret == RV && g_vp_n == OLD(g_vp_n) + 1 && g_vp_spec == spec && g_vp_emu == emu)
;
int w_ret;
int c_model_probe(struct emu *emu)
__CPROVER_requires(DIAG_PRE && g_vp_n == 0)
__CPROVER_assigns(DIAG_FRAME, g_vp_n, g_vp_ret, g_vp_spec, g_vp_emu)
/* the gate is asked once, about this model, for this emulator */
__CPROVER_ensures(g_vp_n == 1 && g_vp_spec == &M_SPEC && g_vp_emu == emu)
/* and its verdict is the answer: refused stays refused, disabled stays disabled, enabled stays enabled */
__CPROVER_ensures(RV == g_vp_ret)
;
void h_model_probe(void)
{
	struct emu *emu;
	int r = M_PROBE(emu);
	if (r < 0) REACH("incompatible required version refused");
	if (r == 0) REACH("model not required: disabled");
	if (r > 0) REACH("model enabled");
}
