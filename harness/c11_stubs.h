/* c11_stubs.h -- trusted, most general models of everything OUTSIDE src/rt/ovni.c that the
 * C11 (thread isolation, init/fini once) groups need.  Included BEFORE the real ovni.c.
 *
 * None of these models writes program state: a file-system call returns an arbitrary
 * result (every failure possible) and changes nothing the library can read back except
 * through its result.  So, in the frame groups, every write that DFCC checks against an
 * assigns clause is a write of the real code (or of the ghost models of rt_common.h /
 * rt_parson_stub.h, which are named explicitly in the frames). */
#ifndef C11_STUBS_H
#define C11_STUBS_H
#include "rt_common.h"
#include "rt_parson_stub.h"

/* open(2) is variadic (DFCC cannot instrument variadic calls): rebound by macro to a
 * fixed-arity model; any descriptor, or -1 */
static int c11_open(const char *path, int flags, int mode)
{
	(void) path; (void) flags; (void) mode;
	int fd = nondet_int();
	__CPROVER_assume(fd >= -1);
	return fd;
}
#undef open
#define open(p, f, m) c11_open((p), (f), (m))

int close(int fd) { (void) fd; return nondet_int(); }
/* errno is the thread-local libc object *__errno_location(): a call cannot be an assigns
 * target, so the unit sees it as the ghost verif_errno (per-thread in reality, hence no
 * shared state; the repaired readdir loop of move_thdir_to_final writes it). */
#undef errno
int verif_errno;
#define errno verif_errno

int rmdir(const char *path) { (void) path; return nondet_int(); }   /* errno: arbitrary (left as it is) */
int remove(const char *path) { (void) path; return nondet_int(); }

/* mkpath (src/common.c, outside the unit): creates directories, may fail */
int mkpath(const char *path, mode_t mode, int is_dir)
{
	(void) path; (void) mode; (void) is_dir;
	return nondet_int();
}

/* getenv: unset, or some NUL-terminated string (content arbitrary) */
static char c11_env[8];
char *c11_getenv(const char *name)
{
	(void) name;
	if (nondet_bool()) return NULL;
	return c11_env;
}
#define getenv(n) c11_getenv(n)

/* directory and stdio streams (only used by move_thdir_to_final / move_thread_to_final):
 * handles are pointers to one static cell; readdir yields any entry name or end */
static char c11_dirobj;
static struct dirent c11_dirent;
DIR *opendir(const char *path) { (void) path; return nondet_bool() ? NULL : (DIR *) &c11_dirobj; }
struct dirent *readdir(DIR *d) { (void) d; return nondet_bool() ? NULL : &c11_dirent; }
int closedir(DIR *d) { (void) d; return nondet_int(); }
static char c11_fileobj[2];
FILE *fopen(const char *path, const char *mode) { (void) path; (void) mode; return nondet_bool() ? NULL : (FILE *) &c11_fileobj[nondet_bool()]; }
/* fread delivers k <= n arbitrary bytes: the destination is the caller's local buffer */
size_t fread(void *buf, size_t size, size_t n, FILE *f)
{
	(void) f;
	size_t k = nondet_size_t();
	__CPROVER_assume(k <= n);
	if (k > 0 && size == 1)
		__CPROVER_havoc_slice(buf, k);
	return k;
}
size_t fwrite(const void *buf, size_t size, size_t n, FILE *f)
{
	(void) buf; (void) size; (void) f;
	size_t k = nondet_size_t();
	__CPROVER_assume(k <= n);
	return k;
}
int fclose(FILE *f) { (void) f; return nondet_int(); }
int ferror(FILE *f) { (void) f; return nondet_int(); }

#endif
