/* G4 (C12/C16) -- the two top-level functions of the real src/emu/ovnisort.c: process_trace
 * (bounded: <= 2 streams) and main (`main` renamed by macro; unbounded, loop-free once parse_args
 * is cut).  Sort mode: every stream is sorted in list order and the first failure ends the run
 * with -1; check mode: EVERY stream is checked whatever the others said and the result is -1
 * exactly when some stream is not sorted; main exits 0 exactly when the trace could be loaded and
 * process_trace succeeded.  stream_winsort / stream_check (plan C16) are cut contracts with any
 * result that count their calls. */
#include "prelude.h"
#include "ovni.h"
#include "stream.h"
#include "trace.h"

int g_k;                                  /* observed ordinal: arbitrary */
unsigned g_au_n; void *g_au_obj;
void stream_allow_unsorted(struct stream *stream) { if (g_au_n == (unsigned) g_k) g_au_obj = stream; g_au_n++; }
int g_r_load; unsigned g_load_n; void *g_a_load; const void *g_a_load_dir;
int trace_load(struct trace *trace, const char *dir) { g_load_n++; g_a_load = trace; g_a_load_dir = dir; return g_r_load = nondet_int(); }
void progname_set(char *name) { (void) name; }
void enable_debug(void) { }
char *g4_getenv(const char *name) { (void) name; return nondet_bool() ? NULL : (char *) ""; }
#define getenv(n) g4_getenv(n)
int g_calloc_null; unsigned g_calloc_n;
static inline void *g4_calloc(size_t n, size_t size)
{
	g_calloc_n++;
	void *p = nondet_bool() ? NULL : calloc(n, size);
	g_calloc_null = (p == NULL);
	return p;
}
#define calloc(n, size) g4_calloc((n), (size))
#define main g4_sort_main
#include "ovnisort.c"                     /* the real /repo/src/emu/ovnisort.c */
#undef main
#undef calloc
#undef getenv

/* ---- cut contracts ---- */
unsigned g_ws_n, g_ck_n; unsigned long g_ws_obj, g_ck_obj; int g_ws_failed, g_ws_after_fail, g_ck_failed;
int cc_stream_winsort(struct stream *stream, struct ring *r)
__CPROVER_assigns(g_ws_n, g_ws_obj, g_ws_failed, g_ws_after_fail, DIAG_FRAME)
__CPROVER_ensures(g_ws_n == __CPROVER_old(g_ws_n) + 1)
__CPROVER_ensures(__CPROVER_old(g_ws_n) == (unsigned) g_k ? g_ws_obj == (unsigned long) stream : g_ws_obj == __CPROVER_old(g_ws_obj))
__CPROVER_ensures(g_ws_failed == (__CPROVER_old(g_ws_failed) || __CPROVER_return_value != 0))
__CPROVER_ensures(g_ws_after_fail == (__CPROVER_old(g_ws_after_fail) || __CPROVER_old(g_ws_failed)))
__CPROVER_ensures(g_err >= __CPROVER_old(g_err) && g_err - __CPROVER_old(g_err) <= 8 && g_diag >= __CPROVER_old(g_diag) && g_diag - __CPROVER_old(g_diag) <= 16 && g_warn == __CPROVER_old(g_warn))
;
int cc_stream_check(struct stream *stream)
__CPROVER_assigns(g_ck_n, g_ck_obj, g_ck_failed, DIAG_FRAME)
__CPROVER_ensures(g_ck_n == __CPROVER_old(g_ck_n) + 1)
__CPROVER_ensures(__CPROVER_old(g_ck_n) == (unsigned) g_k ? g_ck_obj == (unsigned long) stream : g_ck_obj == __CPROVER_old(g_ck_obj))
__CPROVER_ensures(g_ck_failed == (__CPROVER_old(g_ck_failed) || __CPROVER_return_value != 0))
__CPROVER_ensures(g_err >= __CPROVER_old(g_err) && g_err - __CPROVER_old(g_err) <= 8 && g_diag >= __CPROVER_old(g_diag) && g_diag - __CPROVER_old(g_diag) <= 16 && g_warn == __CPROVER_old(g_warn))
;

/* =====================================================================================
 * process_trace
 * ===================================================================================== */
#define SFRESH(p) __CPROVER_is_fresh(p, sizeof(struct stream))
#define SLIST2(h) ((h) == NULL || (SFRESH(h) && ((h)->next == NULL || (SFRESH((h)->next) && (h)->next->next == NULL))))
#define SLEN2(h) ((h) == NULL ? 0u : (h)->next == NULL ? 1u : 2u)
#define SEL(h, k) ((k) == 0 ? (h) : (h)->next)
unsigned g_len; int g_mode;
int c_process_trace(struct trace *trace)
__CPROVER_requires(__CPROVER_is_fresh(trace, sizeof(*trace)))
__CPROVER_requires(SLIST2(trace->streams))
__CPROVER_requires(g_len == SLEN2(trace->streams) && g_k >= 0 && g_k < 2)
__CPROVER_requires((operation_mode == SORT || operation_mode == CHECK) && g_mode == (int) operation_mode)
/* -n is not validated (observation O7): look-back windows of at most 2^40 events */
__CPROVER_requires(max_look_back >= 1 && max_look_back <= (1UL << 40))
__CPROVER_requires(DIAG_PRE && g_au_n == 0 && g_ws_n == 0 && g_ck_n == 0 && g_ws_failed == 0 && g_ws_after_fail == 0 && g_ck_failed == 0)
__CPROVER_assigns(DIAG_FRAME, g_died, g_au_n, g_au_obj, g_ws_n, g_ws_obj, g_ws_failed, g_ws_after_fail, g_ck_n, g_ck_obj, g_ck_failed)
__CPROVER_ensures(__CPROVER_return_value == 0 || __CPROVER_return_value == -1)
/* sort mode */
__CPROVER_ensures(g_mode != SORT || (g_ck_n == 0 && (__CPROVER_return_value == -1) == (g_ws_failed != 0) && !g_ws_after_fail &&
	g_ws_n <= g_len && (g_ws_failed || g_ws_n == g_len) && g_au_n == g_ws_n))
__CPROVER_ensures(g_mode != SORT || (unsigned) g_k >= g_ws_n || (g_ws_obj == (unsigned long) SEL(trace->streams, g_k) && g_au_obj == SEL(trace->streams, g_k)))
__CPROVER_ensures(g_mode != SORT || __CPROVER_return_value == 0 || g_err > __CPROVER_old(g_err))
/* check mode: all streams are checked */
__CPROVER_ensures(g_mode != CHECK || (g_ws_n == 0 && (__CPROVER_return_value == -1) == (g_ck_failed != 0) && g_ck_n == g_len && g_au_n == g_len))
__CPROVER_ensures(g_mode != CHECK || (unsigned) g_k >= g_ck_n || (g_ck_obj == (unsigned long) SEL(trace->streams, g_k) && g_au_obj == SEL(trace->streams, g_k)))
__CPROVER_ensures(g_mode != CHECK || g_diag > __CPROVER_old(g_diag))
;
void h_process_trace(void)
{
	struct trace *trace;
	int r = process_trace(trace);
	if (r == 0 && g_mode == SORT && g_len == 2) REACH("two streams sorted");
	if (r == -1 && g_mode == SORT && g_ws_n == 1 && g_len == 2) REACH("first stream could not be sorted: stop");
	if (r == 0 && g_mode == CHECK && g_len == 2) REACH("two streams are sorted");
	if (r == -1 && g_mode == CHECK && g_ck_n == 2) REACH("a stream is not sorted, all were checked");
	if (r == 0 && g_len == 0) REACH("no streams");
}

/* =====================================================================================
 * main
 * ===================================================================================== */
void cc_parse_args(int argc, char *argv[])
__CPROVER_assigns(tracedir, operation_mode, max_look_back)
;
int g_r_proc; unsigned g_proc_n; unsigned long g_a_proc;
int cc_process_trace(struct trace *trace)
__CPROVER_assigns(g_r_proc, g_proc_n, g_a_proc, DIAG_FRAME)
__CPROVER_ensures(g_r_proc == __CPROVER_return_value && g_proc_n == __CPROVER_old(g_proc_n) + 1 && g_a_proc == (unsigned long) trace)
__CPROVER_ensures(g_err >= __CPROVER_old(g_err) && g_err - __CPROVER_old(g_err) <= 8 && g_diag >= __CPROVER_old(g_diag) && g_diag - __CPROVER_old(g_diag) <= 16 && g_warn == __CPROVER_old(g_warn))
;
int c_sort_main(int argc, char *argv[])
__CPROVER_requires(DIAG_PRE && g_calloc_n == 0 && g_calloc_null == 0 && g_load_n == 0 && g_proc_n == 0)
__CPROVER_assigns(DIAG_FRAME, g_calloc_n, g_calloc_null, g_load_n, g_r_load, g_a_load, g_a_load_dir, g_r_proc, g_proc_n, g_a_proc, tracedir, operation_mode, max_look_back)
__CPROVER_ensures(__CPROVER_return_value == 0 || __CPROVER_return_value == 1)
__CPROVER_ensures(g_calloc_n == 1 && g_load_n == (g_calloc_null ? 0u : 1u) && g_proc_n == ((g_load_n == 1 && g_r_load == 0) ? 1u : 0u))
__CPROVER_ensures(g_load_n == 0 || (g_a_load != NULL && g_a_load_dir == tracedir))
__CPROVER_ensures(g_proc_n == 0 || g_a_proc == (unsigned long) g_a_load)
__CPROVER_ensures((__CPROVER_return_value == 0) == (g_proc_n == 1 && g_r_proc == 0))
__CPROVER_ensures(g_proc_n == 1 || g_err > __CPROVER_old(g_err))
;
void h_sort_main(void)
{
	int argc; char **argv;
	int r = g4_sort_main(argc, argv);
	if (r == 0) REACH("sorted / checked");
	if (r == 1 && g_proc_n == 1) REACH("process_trace failed");
	if (r == 1 && g_load_n == 1 && g_proc_n == 0) REACH("trace_load failed");
	if (r == 1 && g_load_n == 0) REACH("out of memory");
}
