/* C06 (gap G2) -- CPU side of a model's channels: src/emu/model_cpu.c
 *   init_chan / init_cpu / model_cpu_create:
 *     every CPU of the system gets, per model channel i, one track created with TRACK_TYPE_TH and the
 *     tracking mode spec->chan->track[i], named <model>.cpu<gindex>.<ch_names[i]>, in the emulator's
 *     bay; the model_cpu is stored in the CPU's extension slot of the model.
 *   model_cpu_connect (+ the real connect_cpu, itself the subject of group connect_cpu):
 *     every CPU of the system is wired exactly once, in list order (select = THAT CPU's running-thread
 *     channel, one input slot per thread; only mode RUN accepted), and the PRV wiring
 *     model_pvt_connect_cpu(emu, spec) is requested once, after all the wiring and only then.
 * Bounded: <= 2 model channels x <= 2 CPUs (x <= 2 threads for connect).  Assume/assert harness on the
 * real code (plain CBMC); track.c, cpu.c, model_pvt.c are other units: logging stubs, arbitrary result. */
#include "prelude.h"
#include "track.h"
#include "cpu.h"
#include "thread.h"
#include "emu.h"
#include "model.h"
#include "model_cpu.h"
#include "model_thread.h"
#include "model_chan.h"
#include "model_pvt.h"

#define NLOG 8
int g_seq, g_callee_failed, g_alloc_failed;

static void *verif_calloc(size_t n, size_t s)
{
	void *p = calloc(n, s);
	if (p == NULL) g_alloc_failed = 1;
	return p;
}

/* track_init(track, bay, type, mode, fmt, model name, gindex, ch_name) */
struct track *g_ti_tr[NLOG]; struct bay *g_ti_bay[NLOG]; int g_ti_type[NLOG]; int g_ti_mode[NLOG];
const char *g_ti_prefix[NLOG]; int64_t g_ti_gindex[NLOG]; const char *g_ti_name[NLOG]; int g_nti;
int verif_track_init(struct track *tr, struct bay *bay, enum track_type type, int mode, const char *prefix, int64_t gindex, const char *name)
{
	if (g_nti < NLOG) {
		g_ti_tr[g_nti] = tr; g_ti_bay[g_nti] = bay; g_ti_type[g_nti] = (int) type; g_ti_mode[g_nti] = mode;
		g_ti_prefix[g_nti] = prefix; g_ti_gindex[g_nti] = gindex; g_ti_name[g_nti] = name;
	}
	g_nti++; g_seq++;
	int r = nondet_int();
	if (r != 0) g_callee_failed = 1;
	return r;
}
#define track_init(tr, bay, type, mode, fmt, a, b, c) verif_track_init((tr), (bay), (type), (mode), (a), (b), (c))

struct track *g_sel_track[NLOG]; struct chan *g_sel_chan[NLOG]; mux_select_func_t g_sel_f[NLOG]; int64_t g_sel_n[NLOG]; int g_nsel;
struct track *g_in_track[NLOG]; int64_t g_in_idx[NLOG]; struct chan *g_in_chan[NLOG]; int g_nin;
int track_set_select(struct track *track, struct chan *sel, mux_select_func_t fsel, int64_t ninputs)
{
	if (g_nsel < NLOG) { g_sel_track[g_nsel] = track; g_sel_chan[g_nsel] = sel; g_sel_f[g_nsel] = fsel; g_sel_n[g_nsel] = ninputs; }
	g_nsel++; g_seq++;
	int r = nondet_int();
	if (r != 0) g_callee_failed = 1;
	return r;
}
int track_set_input(struct track *track, int64_t index, struct chan *inp)
{
	if (g_nin < NLOG) { g_in_track[g_nin] = track; g_in_idx[g_nin] = index; g_in_chan[g_nin] = inp; }
	g_nin++; g_seq++;
	int r = nondet_int();
	if (r != 0) g_callee_failed = 1;
	return r;
}
/* cpu.c: executable form of the contract proved on the real cpu.c in group cpu_get_th_chan */
struct chan *cpu_get_th_chan(struct cpu *cpu) { return &cpu->chan[CPU_CHAN_THRUN]; }

struct emu *g_pvt_emu; const struct model_cpu_spec *g_pvt_spec; int g_pvt_seq, g_pvt_nsel, g_pvt_nin, g_npvt;
int model_pvt_connect_cpu(struct emu *emu, const struct model_cpu_spec *spec)
{
	g_pvt_emu = emu; g_pvt_spec = spec; g_pvt_seq = g_seq; g_pvt_nsel = g_nsel; g_pvt_nin = g_nin;
	g_npvt++; g_seq++;
	int r = nondet_int();
	if (r != 0) g_callee_failed = 1;
	return r;
}

#define calloc(n, s) verif_calloc((n), (s))
#include "extend.c"
#include "model_cpu.c"
#undef calloc

static struct emu G_emu;
static struct cpu G_c0, G_c1;
static struct model_cpu_spec G_spec;
static struct model_chan_spec G_cspec;
static struct model_spec G_mspec;
static int G_modes[2];
static const char *G_names[2];
static const char G_mname[] = "model", G_n0[] = "a", G_n1[] = "b";
int w_nch, w_ncpu, w_nth, w_mode0, w_mode1;

static void build(void)
{
	int id = nondet_uchar();
	int nch = nondet_int(); __CPROVER_assume(nch >= 0 && nch <= 2);
	int ncpu = nondet_int(); __CPROVER_assume(ncpu >= 0 && ncpu <= 2);
	G_modes[0] = nondet_int(); G_modes[1] = nondet_int();
	G_names[0] = G_n0; G_names[1] = G_n1;
	G_mspec.model = id; G_mspec.name = G_mname;
	G_cspec.nch = nch; G_cspec.prefix = "m"; G_cspec.ch_names = G_names; G_cspec.ch_stack = NULL; G_cspec.ch_dup = NULL;
	G_cspec.track = G_modes; G_cspec.pvt = NULL;
	size_t extra = nondet_size_t(); __CPROVER_assume(extra <= 4096);
	G_spec.size = sizeof(struct model_cpu) + extra; G_spec.chan = &G_cspec; G_spec.model = &G_mspec;
	G_c0.next = (ncpu == 2) ? &G_c1 : NULL; G_c1.next = NULL;
	G_c0.gindex = nondet_long(); G_c1.gindex = nondet_long();
	G_emu.system.cpus = (ncpu >= 1) ? &G_c0 : NULL;
	G_emu.system.ncpus = (size_t) ncpu;
	g_seq = 0; g_callee_failed = 0; g_alloc_failed = 0; g_err = 0;
	g_nti = g_nsel = g_nin = g_npvt = 0;
	w_nch = nch; w_ncpu = ncpu; w_mode0 = G_modes[0]; w_mode1 = G_modes[1];
}

#ifdef H_CPU_CREATE
void h_cpu_create(void)
{
	build();
	int nch = w_nch, ncpu = w_ncpu;
	int id = G_mspec.model;
	G_c0.ext.ctx[id] = NULL; G_c1.ext.ctx[id] = NULL;

	int r = model_cpu_create(&G_emu, &G_spec);

	VASSERT((r == 0) == (!g_callee_failed && !g_alloc_failed), "model_cpu_create accepted iff track.c accepted and memory was available");
	VASSERT(r == 0 || g_err > 0, "a refusal is diagnosed");
	if (r == 0) {
		VASSERT(g_nti == ncpu * nch, "one track per (CPU, channel)");
		for (int k = 0; k < 2; k++) {
			if (k >= ncpu) continue;
			struct cpu *c = k == 0 ? &G_c0 : &G_c1;
			struct model_cpu *mc = c->ext.ctx[id];
			VASSERT(mc != NULL, "the model CPU is stored in the extension slot of the model");
			VASSERT(mc->spec == &G_spec && mc->bay == &G_emu.bay, "model CPU bound to the spec and the emulator's bay");
			VASSERT(nch == 0 || mc->track != NULL, "track table allocated");
			for (int i = 0; i < 2; i++) {
				if (i >= nch) continue;
				int m = k * nch + i;      /* CPUs in list order, channels in spec order */
				VASSERT(g_ti_tr[m] == &mc->track[i] && g_ti_bay[m] == &G_emu.bay, "track i of CPU k created in the emulator's bay");
				VASSERT(g_ti_type[m] == TRACK_TYPE_TH, "CPU tracks are TRACK_TYPE_TH (they follow threads)");
				VASSERT(g_ti_mode[m] == G_modes[i], "tracking mode exactly spec->track[i]");
				VASSERT(g_ti_prefix[m] == G_mname && g_ti_gindex[m] == c->gindex && g_ti_name[m] == G_names[i], "named <model>.cpu<gindex>.<ch_names[i]>");
			}
		}
		if (ncpu < 2) VASSERT(G_c1.ext.ctx[id] == NULL, "CPUs outside the system are not touched");
		REACH("model_cpu_create accepted");
		if (nch == 2 && ncpu == 2) REACH("two channels, two CPUs");
		if (nch >= 1 && ncpu >= 1 && w_mode0 == TRACK_TH_ACT) REACH("create does not judge the mode");
	} else {
		REACH("model_cpu_create refused");
		if (g_alloc_failed && !g_callee_failed) REACH("refused: out of memory");
	}
}
#endif

#ifdef H_CPU_CONNECT
void h_cpu_connect(void)
{
	build();
	int nch = w_nch, ncpu = w_ncpu;
	int id = G_mspec.model;
	static struct thread t0, t1;
	static struct model_thread mt0, mt1;
	static struct chan ch0[2], ch1[2];
	static struct model_cpu mc0, mc1;
	static struct track tr0[2], tr1[2];
	int nth = nondet_int(); __CPROVER_assume(nth >= 0 && nth <= 2);
	w_nth = nth;
	mt0.ch = ch0; mt1.ch = ch1;
	t0.ext.ctx[id] = &mt0; t1.ext.ctx[id] = &mt1;
	t0.gnext = (nth == 2) ? &t1 : NULL; t1.gnext = NULL;
	t0.gindex = 0; t1.gindex = 1;
	G_emu.system.threads = (nth >= 1) ? &t0 : NULL;
	G_emu.system.nthreads = (size_t) nth;
	mc0.spec = &G_spec; mc0.bay = &G_emu.bay; mc0.track = tr0;
	mc1.spec = &G_spec; mc1.bay = &G_emu.bay; mc1.track = tr1;
	G_c0.ext.ctx[id] = &mc0; G_c1.ext.ctx[id] = &mc1;

	int r = model_cpu_connect(&G_emu, &G_spec);

	int all_run = (nch < 1 || G_modes[0] == TRACK_TH_RUN) && (nch < 2 || G_modes[1] == TRACK_TH_RUN);
	VASSERT((r == 0) == ((ncpu == 0 || all_run) && !g_callee_failed), "model_cpu_connect accepted iff every channel tracks TH_RUN and track.c / the PRV wiring accepted");
	VASSERT(r == 0 || g_err > 0, "a refusal is diagnosed");
	VASSERT(g_npvt <= 1 && g_nsel <= ncpu * nch && g_nin <= ncpu * nch * nth, "nothing is wired twice");
	if (g_npvt == 1) {
		VASSERT(g_pvt_nsel == ncpu * nch && g_pvt_nin == ncpu * nch * nth, "the PRV wiring is requested after every CPU was wired");
		VASSERT(g_pvt_emu == &G_emu && g_pvt_spec == &G_spec, "PRV wiring of this model");
	}
	if (r == 0) {
		VASSERT(g_npvt == 1 && g_nsel == ncpu * nch && g_nin == ncpu * nch * nth, "every CPU wired once: one select per channel, one input per (channel, thread); then the PRV wiring");
		for (int k = 0; k < 2; k++) {
			if (k >= ncpu) continue;
			struct cpu *c = k == 0 ? &G_c0 : &G_c1;
			struct track *tr = k == 0 ? tr0 : tr1;
			for (int i = 0; i < 2; i++) {
				if (i >= nch) continue;
				int s = k * nch + i;
				VASSERT(g_sel_track[s] == &tr[i], "CPU k, channel i: its own track");
				VASSERT(g_sel_chan[s] == &c->chan[CPU_CHAN_THRUN], "selected by THAT CPU's running-thread channel");
				VASSERT(g_sel_f[s] == NULL && g_sel_n[s] == (int64_t) nth, "default selector (thread gindex), one slot per thread of the system");
				for (int q = 0; q < 2; q++) {
					if (q >= nth) continue;
					int j = s * nth + q;
					VASSERT(g_in_track[j] == &tr[i] && g_in_idx[j] == q, "input slot gindex(t) of the track of CPU k, channel i");
					VASSERT(g_in_chan[j] == (q == 0 ? &ch0[i] : &ch1[i]), "input gindex(t) is channel i of thread t");
				}
			}
		}
		REACH("model_cpu_connect accepted");
		if (ncpu == 2 && nch == 2 && nth == 2) REACH("two CPUs, two channels, two threads");
		if (ncpu == 0) REACH("no CPUs: only the PRV wiring");
	} else {
		REACH("model_cpu_connect refused");
		if (g_npvt == 1) REACH("refused by the PRV wiring");
		if (!all_run && !g_callee_failed) REACH("refused: a channel does not track TH_RUN");
		if (g_npvt == 0 && ncpu == 2 && g_nsel > nch) REACH("refused at the second CPU");
	}
}
#endif
