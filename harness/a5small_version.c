/* A5 (function coverage, plan C14) -- ovni_version_get of the real src/rt/ovni.c: the library
 * reports exactly the version and commit strings it was COMPILED with (OVNI_LIB_VERSION /
 * OVNI_GIT_COMMIT of ovni.h: the very macros ovni_version_check_str compares against and
 * thread_metadata_populate stores as ovni.lib.version / ovni.lib.commit), and touches nothing
 * else: the write frame is the two caller-owned result cells -- not rproc, not rthread.
 *   - both results are non-NULL, NUL-terminated, byte-for-byte the macro's text (length included);
 *   - version goes to *version and commit to *commit (not swapped -- checked by content; the
 *     two texts differ: static assertion below on their first bytes or lengths).
 * The caller's two cells are harness objects (they exist before the call and are the only
 * assigns targets).  Loop-free function; the comparison loops of the SPEC are bounded by the
 * literal lengths (<= 64 bytes: static assertion).
 * Not covered in this file: clock_tsc_now (inline asm rdtsc/mrs: no C semantics for CBMC). */
#include "rt_common.h"
#include "ovni.c"                      /* the real /repo/src/rt/ovni.c */

#define RV __CPROVER_return_value
_Static_assert(sizeof(OVNI_LIB_VERSION) <= 64 && sizeof(OVNI_GIT_COMMIT) <= 64, "unwind bound of the spec loops");

/* spec: s is byte-for-byte the literal lit of n bytes (NUL included) */
static int a5_same_text(const char *s, const char *lit, size_t n)
{
	if (s == NULL) return 0;
	for (size_t k = 0; k < n; k++)
		if (s[k] != lit[k]) return 0;
	return 1;
}

const char **g_pv, **g_pc;
void c_ovni_version_get(const char **version, const char **commit)
__CPROVER_requires(version == g_pv && commit == g_pc && version != commit)
__CPROVER_assigns(*version, *commit)
__CPROVER_ensures(a5_same_text(*version, OVNI_LIB_VERSION, sizeof(OVNI_LIB_VERSION)))
__CPROVER_ensures(a5_same_text(*commit, OVNI_GIT_COMMIT, sizeof(OVNI_GIT_COMMIT)))
;
void h_ovni_version_get(void)
{
	const char *v = NULL, *c = NULL;
	g_pv = &v; g_pc = &c;
	ovni_version_get(&v, &c);
	VASSERT(v != NULL && c != NULL, "both strings are reported");
	VASSERT(strlen(v) == sizeof(OVNI_LIB_VERSION) - 1 && strlen(c) == sizeof(OVNI_GIT_COMMIT) - 1, "lengths of the compiled-in texts");
	VASSERT(strcmp(v, OVNI_LIB_VERSION) == 0, "version is the compiled-in OVNI_LIB_VERSION");
	VASSERT(strcmp(c, OVNI_GIT_COMMIT) == 0, "commit is the compiled-in OVNI_GIT_COMMIT");
	/* the two texts are different, so a swap cannot go unnoticed */
	VASSERT(strcmp(OVNI_LIB_VERSION, OVNI_GIT_COMMIT) != 0, "version text and commit text differ");
	if (v[0] >= '0' && v[0] <= '9') REACH("version starts with a digit");
	if (c[0] != '\0') REACH("non-empty commit");
}
