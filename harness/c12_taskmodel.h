/* C12 -- payload-size / shape guards of the task-based models (nOS-V, Nanos6).
 * Included by c12_nosv.c and c12_nanos6.c AFTER the real <model>/event.c, with
 *   TM_CH          model character ('V' / '6')
 *   TM_THREAD_T / TM_PROC_T   the model's extension structs
 *   TM_STATE_MIN   minimum payload size update_task_state accepts (8 / 4)
 *   TM_CREATE_OK(ps)  payload sizes create_task accepts (>= 8 / == 8)
 *   TM_KNOWN_C(c)  categories process_ev dispatches
 *   TM_OUT_OF_CPU_CHECK  1 if process_ev also refuses a thread that is out of CPU */
#ifndef C12_TASKMODEL_H
#define C12_TASKMODEL_H

/* ---- stubs of the other modules (task.c, extend.c): most general, call counted ---- */
void *extend_get(struct extend *ext, int id) { (void) ext; (void) id; g_calls++; void *p = malloc(sizeof(TM_THREAD_T) + sizeof(TM_PROC_T)); __CPROVER_assume(p != NULL); return p; }
struct task *task_find(struct task *tasks, uint32_t id) { (void) tasks; (void) id; g_calls++; return nondet_bool() ? NULL : malloc(sizeof(struct task)); }
int task_is_parallel(struct task *t) { (void) t; g_calls++; return nondet_int(); }
unsigned nondet_unsigned(void);
uint32_t task_get_id(struct task *t) { (void) t; g_calls++; return nondet_unsigned(); }
int task_execute(struct task_stack *s, struct task *t, uint32_t b) { (void) s; (void) t; (void) b; g_calls++; return nondet_int(); }
int task_end(struct task_stack *s, struct task *t, uint32_t b) { (void) s; (void) t; (void) b; g_calls++; return nondet_int(); }
int task_pause(struct task_stack *s, struct task *t, uint32_t b) { (void) s; (void) t; (void) b; g_calls++; return nondet_int(); }
int task_resume(struct task_stack *s, struct task *t, uint32_t b) { (void) s; (void) t; (void) b; g_calls++; return nondet_int(); }
int task_create(struct task_info *i, uint32_t ty, uint32_t id, uint32_t fl) { (void) i; (void) ty; (void) id; (void) fl; g_calls++; return nondet_int(); }
int task_type_create(struct task_info *i, uint32_t ty, const char *label) { (void) i; (void) ty; (void) label; g_calls++; return nondet_int(); }

/* memchr (libc, trusted model): either NULL (always possible: over-approximation)
 * or a pointer to some index j < n with s[j] == c, recorded in ghosts */
int g_nul_found;
unsigned long g_nul_idx;
void *memchr(const void *s, int c, size_t n)
{
	if (nondet_bool())
		return NULL;
	size_t j = nondet_size_t();
	__CPROVER_assume(j < n && ((const unsigned char *) s)[j] == (unsigned char) c);
	g_nul_found = 1;
	g_nul_idx = j;
	return (void *) ((const unsigned char *) s + j);
}

int c_cut_emu(struct emu *emu) __CPROVER_assigns(g_calls) __CPROVER_ensures(g_calls == __CPROVER_old(g_calls) + 1);
int c_cut_emu_char(struct emu *emu, char v) __CPROVER_assigns(g_calls) __CPROVER_ensures(g_calls == __CPROVER_old(g_calls) + 1);

#define REQ_TM(emu) REQ_EMU_EV(emu) \
	__CPROVER_requires(__CPROVER_is_fresh((emu)->thread, sizeof(struct thread))) \
	__CPROVER_requires(__CPROVER_is_fresh((emu)->proc, sizeof(struct proc))) \
	__CPROVER_requires(DIAG_PRE && CALLS_PRE)
#define REFUSED (__CPROVER_return_value == -1 && g_err > __CPROVER_old(g_err))
#define RET01 (__CPROVER_return_value == 0 || __CPROVER_return_value == -1)

/* ---------------- update_task_state: task id (and body id) must be in the payload ---------------- */
WITNESS(update_task_state);
int c_update_task_state(struct emu *emu)
REQ_TM(emu)
__CPROVER_requires(WBIND(update_task_state, w_psize == emu->ev->payload_size && w_v == emu->ev->v))
__CPROVER_assigns(DIAG_FRAME)
__CPROVER_assigns(emu->ev->payload_size >= TM_STATE_MIN: g_calls)
__CPROVER_ensures(RET01)
__CPROVER_ensures(emu->ev->payload_size >= TM_STATE_MIN || REFUSED)
__CPROVER_ensures(__CPROVER_return_value != 0 || (emu->ev->payload_size >= TM_STATE_MIN &&
	(emu->ev->v == 'x' || emu->ev->v == 'e' || emu->ev->v == 'p' || emu->ev->v == 'r')))
;
void h_update_task_state(void)
{
	struct emu *emu;
	WITNESS_ON(update_task_state);
	int r = update_task_state(emu);
	if (r == 0 && w_psize == TM_STATE_MIN) REACH("task state event with the minimum payload accepted");
	if (r != 0 && w_psize == 0) REACH("task state event without payload refused");
	if (r != 0 && w_psize == TM_STATE_MIN - 1) REACH("task state event one byte short refused");
}

/* ---------------- create_task ---------------- */
WITNESS(create_task);
#ifdef TM_CREATE_HAS_VALUE
int c_create_task(struct emu *emu, char value)
#else
int c_create_task(struct emu *emu)
#endif
REQ_TM(emu)
__CPROVER_requires(WBIND(create_task, w_psize == emu->ev->payload_size))
__CPROVER_assigns(DIAG_FRAME)
__CPROVER_assigns(TM_CREATE_OK(emu->ev->payload_size): g_calls)
__CPROVER_ensures(RET01)
__CPROVER_ensures(TM_CREATE_OK(emu->ev->payload_size) || REFUSED)
;
void h_create_task(void)
{
	struct emu *emu;
	WITNESS_ON(create_task);
#ifdef TM_CREATE_HAS_VALUE
	char v;
	int r = create_task(emu, v);
#else
	int r = create_task(emu);
#endif
	if (r == 0 && w_psize == 8) REACH("task create with 8 bytes accepted");
	if (r != 0 && w_psize == 4) REACH("task create with 4 bytes refused");
	if (r != 0 && w_psize == 0) REACH("task create without payload refused");
#ifndef TM_CREATE_HAS_VALUE
	if (r != 0 && w_psize == 16) REACH("task create with 16 bytes refused");
#endif
}

/* ---------------- pre_type: jumbo event, type id + nil-terminated label ---------------- */
#define TYPE_SHAPE_OK(emu) ((emu)->ev->v == 'c' && (emu)->ev->is_jumbo && (emu)->ev->payload->jumbo.size > 4)
WITNESS(pre_type);
int c_pre_type(struct emu *emu)
REQ_TM(emu)
__CPROVER_requires(g_nul_found == 0)
__CPROVER_requires(WBIND(pre_type, w_psize == emu->ev->payload_size && w_v == emu->ev->v && w_is_jumbo == emu->ev->is_jumbo &&
	(!emu->ev->is_jumbo || w_jsize == emu->ev->payload->jumbo.size)))
__CPROVER_assigns(DIAG_FRAME, g_nul_found, g_nul_idx)
__CPROVER_assigns(TYPE_SHAPE_OK(emu): g_calls)
__CPROVER_ensures(RET01)
/* not 'c', not jumbo, or jumbo data that cannot hold a type id and one label byte: refused, nothing called */
__CPROVER_ensures(TYPE_SHAPE_OK(emu) || REFUSED)
/* accepted => the label has a terminator inside the jumbo data (index < size - 4) */
__CPROVER_ensures(__CPROVER_return_value != 0 || (TYPE_SHAPE_OK(emu) && g_nul_found &&
	g_nul_idx < (unsigned long) emu->ev->payload->jumbo.size - 4UL &&
	((const uint8_t *) emu->ev->payload)[8UL + g_nul_idx] == 0))
__CPROVER_ensures(__CPROVER_return_value == 0 || g_err > __CPROVER_old(g_err))
;
void h_pre_type(void)
{
	struct emu *emu;
	WITNESS_ON(pre_type);
	int r = pre_type(emu);
	if (r == 0) REACH("type create accepted");
	if (r == 0 && w_jsize == 5) REACH("type with empty label accepted");
	if (r != 0 && w_v == 'c' && !w_is_jumbo && w_psize == 8) REACH("non-jumbo type create with 8 bytes refused");
	if (r != 0 && w_v == 'c' && w_is_jumbo && w_jsize == 4) REACH("jumbo type create with 4 data bytes refused");
	if (r != 0 && w_v == 'c' && w_is_jumbo && w_jsize == 2) REACH("jumbo type create with 2 data bytes refused");
	if (r != 0 && w_v == 'c' && w_is_jumbo && w_jsize > 4 && !g_nul_found) REACH("unterminated label refused");
	if (r != 0 && w_v != 'c') REACH("unknown type event refused");
}

/* ---------------- pre_task: unknown task event values ---------------- */
#define KNOWN_TASK_V(v) ((v) == 'C' || (v) == 'c' || (v) == 'x' || (v) == 'e' || (v) == 'r' || (v) == 'p')
WITNESS(pre_task);
int c_pre_task(struct emu *emu)
REQ_TM(emu)
__CPROVER_requires(WBIND(pre_task, w_v == emu->ev->v))
__CPROVER_assigns(DIAG_FRAME)
__CPROVER_assigns(KNOWN_TASK_V(emu->ev->v): g_calls)
__CPROVER_ensures(RET01)
__CPROVER_ensures(KNOWN_TASK_V(emu->ev->v) || REFUSED)
;
void h_pre_task(void)
{
	struct emu *emu;
	WITNESS_ON(pre_task);
	int r = pre_task(emu);
	if (r == 0 && w_v == 'c') REACH("task create dispatched");
	if (r == 0 && w_v == 'x') REACH("task execute dispatched");
	if (r != 0 && w_v == 'z') REACH("unknown task event refused");
}

/* ---------------- process_ev / model event: unknown category, wrong model, inactive thread ---------------- */
#if TM_OUT_OF_CPU_CHECK
#define TM_THREAD_OK(emu) ((emu)->thread->is_active && !(emu)->thread->is_out_of_cpu)
#else
#define TM_THREAD_OK(emu) ((emu)->thread->is_active)
#endif
WITNESS(process_ev);
int c_process_ev(struct emu *emu)
REQ_TM(emu)
__CPROVER_requires(WBIND(process_ev, w_c == emu->ev->c && w_state == (emu->thread->is_active != 0)))
__CPROVER_assigns(DIAG_FRAME)
__CPROVER_assigns(TM_THREAD_OK(emu) && TM_KNOWN_C(emu->ev->c): g_calls)
__CPROVER_ensures((TM_THREAD_OK(emu) && TM_KNOWN_C(emu->ev->c)) || REFUSED)
;
void h_process_ev(void)
{
	struct emu *emu;
	WITNESS_ON(process_ev);
	int r = process_ev(emu);
	if (r == 0 && w_c == 'T') REACH("task event dispatched");
	if (r == 0 && w_c == 'Y') REACH("type event dispatched");
	if (r != 0 && w_state && w_c == 'Z') REACH("unknown category refused");
	if (r != 0 && !w_state) REACH("event of an inactive thread refused");
}

WITNESS(model_event_fn);
int c_model_event_fn(struct emu *emu)
REQ_TM(emu)
__CPROVER_requires(WBIND(model_event_fn, w_c == emu->ev->m))
__CPROVER_assigns(DIAG_FRAME)
__CPROVER_assigns(emu->ev->m == TM_CH: g_calls)
__CPROVER_ensures(RET01)
__CPROVER_ensures(emu->ev->m == TM_CH || REFUSED)
;
#endif
