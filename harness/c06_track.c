/* C06 -- thread selectors (thread.c), tracking modes (track.c), and cb_select driven by the real
 * thread selectors: the thread timeline shows the value exactly while the state satisfies the mode */
#include "prelude.h"
#include "value.h"
_Static_assert(sizeof(struct value) == 16, "struct value has no padding");
#undef value_is_equal
#define value_is_equal(a, b) ((a)->type == (b)->type && (a)->i == (b)->i)
#include "chan.c"
#include "bay.c"
#include "mux.c"
#include "thread.c"        /* real: thread_select_running, thread_select_active */
#include "track.c"         /* real: track_th_input_chan, track_set_select, track_set_input */

#define ST_RUN(s) ((s) == TH_ST_RUNNING)
#define ST_ACT(s) ((s) == TH_ST_RUNNING || (s) == TH_ST_COOLING || (s) == TH_ST_WARMING)

int64_t w_vt, w_vi, w_nin;
struct mux_input *g_inputs;
WITNESS(thread_select_running);
WITNESS(thread_select_active);

/* The select channel of a thread track is the thread's state channel: it holds null or
 * value_int64(th->state) (thread_set_state), so an int64 key is a thread_state (fits the enum). */
#define KEY_IS_STATE(v) ((v).type != VALUE_INT64 || ((v).i >= 0 && (v).i <= 0xffffffffLL))

#define SELECTOR_CONTRACT(fn, SEL) \
int c_##fn(struct mux *mux, struct value value, struct mux_input **input) \
__CPROVER_requires(__CPROVER_is_fresh(mux, sizeof(*mux)) && __CPROVER_is_fresh(input, sizeof(*input))) \
__CPROVER_requires(mux->ninputs != 1 || __CPROVER_is_fresh(mux->inputs, sizeof(struct mux_input))) \
__CPROVER_requires(KEY_IS_STATE(value) && g_inputs == mux->inputs && DIAG_PRE) \
__CPROVER_requires(WBIND(fn, w_vt == value.type && w_vi == value.i && w_nin == mux->ninputs)) \
__CPROVER_assigns(*input, DIAG_FRAME) \
/* accepted: null key, or a state key on a one-input mux */ \
__CPROVER_ensures((__CPROVER_return_value == 0) == (value.type == VALUE_NULL || (value.type == VALUE_INT64 && mux->ninputs == 1))) \
__CPROVER_ensures(__CPROVER_return_value == 0 || (__CPROVER_return_value == -1 && g_err > __CPROVER_old(g_err))) \
/* input 0 is selected exactly when the state is in the mode's set, otherwise nothing is */ \
__CPROVER_ensures(__CPROVER_return_value != 0 || \
	*input == ((value.type == VALUE_INT64 && SEL(value.i)) ? &g_inputs[0] : (struct mux_input *) NULL)) \
;
SELECTOR_CONTRACT(thread_select_running, ST_RUN)
SELECTOR_CONTRACT(thread_select_active, ST_ACT)

#define SELECTOR_HARNESS(fn) \
void h_##fn(void) \
{ \
	struct mux *mux; struct value value; struct mux_input **input; \
	WITNESS_ON(fn); \
	int r = fn(mux, value, input); \
	if (r == 0 && w_vt == VALUE_NULL) REACH("null state: nothing selected"); \
	if (r == 0 && w_vt == VALUE_INT64 && w_vi == TH_ST_RUNNING) REACH("running"); \
	if (r == 0 && w_vt == VALUE_INT64 && w_vi == TH_ST_PAUSED) REACH("paused"); \
	if (r == 0 && w_vt == VALUE_INT64 && w_vi == TH_ST_COOLING) REACH("cooling"); \
	if (r == 0 && w_vt == VALUE_INT64 && w_vi == TH_ST_WARMING) REACH("warming"); \
	if (r == 0 && w_vt == VALUE_INT64 && w_vi == TH_ST_DEAD) REACH("dead"); \
	if (r != 0 && w_vt == VALUE_INT64 && w_nin == 2) REACH("refused: not a one-input mux"); \
	if (r != 0 && w_vt == VALUE_DOUBLE) REACH("refused: double key"); \
}
SELECTOR_HARNESS(thread_select_running)
SELECTOR_HARNESS(thread_select_active)

/* =====================================================================================
 * mux_init / mux_set_input (mux.c) and track_th_input_chan (track.c)
 * ===================================================================================== */
/* Trusted (assumed) contracts of the bay registry: lookup goes through uthash (not verified). */
int g_find_failed, g_addcb_failed;
struct chan *t_bay_find(struct bay *bay, const char *name)
__CPROVER_assigns(g_find_failed)
__CPROVER_ensures(__CPROVER_return_value != NULL || g_find_failed == 1)
__CPROVER_ensures(__CPROVER_return_value == NULL || g_find_failed == __CPROVER_old(g_find_failed))
;
/* bay_add_cb records what was asked for in ghosts (no dereference of the returned record is needed) */
struct bay_cb *g_last_cb; bay_cb_func_t g_cb_func; void *g_cb_arg; int g_cb_en, g_cb_type; struct chan *g_cb_chan;
#define ADDCB_FRAME g_addcb_failed, g_last_cb, g_cb_func, g_cb_arg, g_cb_en, g_cb_type, g_cb_chan
struct bay_cb *t_bay_add_cb(struct bay *bay, enum bay_cb_type type, struct chan *chan, bay_cb_func_t func, void *arg, int enabled)
__CPROVER_assigns(ADDCB_FRAME)
__CPROVER_ensures(__CPROVER_return_value != NULL || g_addcb_failed == 1)
__CPROVER_ensures(__CPROVER_return_value == NULL || (g_addcb_failed == __CPROVER_old(g_addcb_failed) &&
	__CPROVER_is_fresh(__CPROVER_return_value, sizeof(struct bay_cb))))
/* (after is_fresh, which binds the return value) */
__CPROVER_ensures(g_last_cb == __CPROVER_return_value && g_cb_func == func && g_cb_arg == arg && g_cb_en == enabled && g_cb_type == (int) type && g_cb_chan == chan)
;

#ifndef MAXIN
#define MAXIN 4096
#endif
//  /* largest mux considered (no loop over inputs in mux_init / mux_set_input; larger symbolic sizes exhaust the solver's memory) */
int64_t g_k;   /* observer: an arbitrary input index */
#define MI_STATIC_ILLEGAL(select, output) ((output)->type != CHAN_SINGLE || (select) == (output))
int cr_mux_init(struct mux *mux, struct bay *bay, struct chan *select, struct chan *output, mux_select_func_t select_func, int64_t ninputs)
__CPROVER_requires(ninputs >= 0 && ninputs <= MAXIN)
__CPROVER_requires(g_find_failed == 0 && g_addcb_failed == 0 && g_err < 0x7fffff00u)
__CPROVER_assigns(*mux, output->prop[CHAN_DIRTY_WRITE], output->prop[CHAN_ALLOW_DUP], g_find_failed, ADDCB_FRAME, DIAG_FRAME)
__CPROVER_ensures(g_err >= __CPROVER_old(g_err) && g_err - __CPROVER_old(g_err) <= 4u)
__CPROVER_ensures(__CPROVER_return_value == 0 || (__CPROVER_return_value == -1 && g_err > __CPROVER_old(g_err)))
/* refused exactly when: output not a single channel, select == output, a channel is not registered,
 * out of memory, or the select callback could not be added */
__CPROVER_ensures((__CPROVER_return_value != 0) == (MI_STATIC_ILLEGAL(select, output) || g_find_failed || g_addcb_failed ||
	(!MI_STATIC_ILLEGAL(select, output) && !g_find_failed && mux->inputs == NULL)))
/* accepted: a mux over (select, output) with the given selector and ninputs unset inputs; the output
 * channel accepts writes while dirty and duplicates.  NOTE: selected is 0 (memset), not -1. */
__CPROVER_ensures(__CPROVER_return_value != 0 || (
	mux->bay == bay && mux->select == select && mux->output == output && mux->select_func == select_func &&
	mux->ninputs == ninputs && mux->selected == 0 && mux->def.type == VALUE_NULL && mux->def.i == 0 &&
	output->prop[CHAN_DIRTY_WRITE] == 1 && output->prop[CHAN_ALLOW_DUP] == 1 &&
	/* the select callback: cb_select(select, mux), dirty phase, always enabled */
	g_cb_func == cb_select && g_cb_arg == mux && g_cb_chan == select && g_cb_en == 1 && g_cb_type == BAY_CB_DIRTY &&
	__CPROVER_is_fresh(mux->inputs, sizeof(struct mux_input) * (size_t) ninputs) &&
	(g_k < 0 || g_k >= ninputs || (mux->inputs[g_k].chan == NULL && mux->inputs[g_k].cb == NULL && mux->inputs[g_k].selected == 0 && mux->inputs[g_k].output == NULL)) &&
	(ninputs < 1 || (mux->inputs[0].chan == NULL && mux->inputs[0].cb == NULL && mux->inputs[0].selected == 0))))
;
int w_out_type, w_same, w_mode;
WITNESS(mux_init);
void h_mux_init(void)
{
	struct mux *mux = malloc(sizeof(*mux));
	struct chan *select = malloc(sizeof(*select)), *output = nondet_bool() ? select : malloc(sizeof(*output));
	__CPROVER_assume(mux != NULL && select != NULL && output != NULL);
	struct bay *bay; mux_select_func_t fsel; int64_t ninputs;
	w_out_type = (int) output->type; w_same = (select == output); w_nin = ninputs;
	g_find_failed = 0; g_addcb_failed = 0;
	int r = mux_init(mux, bay, select, output, fsel, ninputs);
	if (r == 0 && w_nin == 1) REACH("one-input mux created");
	if (r == 0 && w_nin == 0) REACH("mux without inputs created");
	if (r == 0 && w_nin == 1000) REACH("1000-input mux created");
	if (r != 0 && w_same) REACH("refused: select is the output");
	if (r != 0 && !w_same && w_out_type != CHAN_SINGLE) REACH("refused: stack output");
	if (r != 0 && g_find_failed) REACH("refused: channel not registered");
	if (r != 0 && g_addcb_failed) REACH("refused: bay_add_cb failed");
	if (r != 0 && !w_same && w_out_type == CHAN_SINGLE && !g_find_failed && !g_addcb_failed) REACH("refused: out of memory");
}

int cr_mux_set_input(struct mux *mux, int64_t index, struct chan *chan)
__CPROVER_requires(index >= 0 && index < mux->ninputs)   /* callers: 0 of 1 (thread tracks), gindex of nthreads (CPU tracks) */
__CPROVER_requires(g_addcb_failed == 0 && g_err < 0x7fffff00u)
__CPROVER_assigns(mux->inputs[index], ADDCB_FRAME, DIAG_FRAME)
__CPROVER_ensures(g_err >= __CPROVER_old(g_err) && g_err - __CPROVER_old(g_err) <= 4u)
__CPROVER_ensures(__CPROVER_return_value == 0 || (__CPROVER_return_value == -1 && g_err > __CPROVER_old(g_err)))
/* refused exactly when the channel is the mux output, the slot is taken, or the callback could not be added */
__CPROVER_ensures((__CPROVER_return_value != 0) == (chan == mux->output || __CPROVER_old(mux->inputs[index].chan) != NULL || g_addcb_failed))
/* accepted: slot index forwards chan to the mux output through a DISABLED cb_input callback */
__CPROVER_ensures(__CPROVER_return_value != 0 || (mux->inputs[index].index == index && mux->inputs[index].chan == chan && mux->inputs[index].output == mux->output))
/* the callback record is what bay_add_cb(bay, DIRTY, chan, cb_input, &inputs[index], disabled) returned */
__CPROVER_ensures(__CPROVER_return_value != 0 || (mux->inputs[index].cb == g_last_cb && g_last_cb != NULL))
__CPROVER_ensures(__CPROVER_return_value != 0 || (g_cb_func == cb_input && g_cb_arg == &mux->inputs[index]))
__CPROVER_ensures(__CPROVER_return_value != 0 || (g_cb_chan == chan && g_cb_type == BAY_CB_DIRTY && g_cb_en == 0))
;
int w_taken, w_isout;
void h_mux_set_input(void)
{
	struct mux *mux = malloc(sizeof(*mux));
	__CPROVER_assume(mux != NULL && mux->ninputs >= 1 && mux->ninputs <= MAXIN);
	mux->inputs = malloc(sizeof(struct mux_input) * (size_t) mux->ninputs);
	__CPROVER_assume(mux->inputs != NULL);
	int64_t index; struct chan *chan;
	__CPROVER_assume(index >= 0 && index < mux->ninputs);
	w_taken = (mux->inputs[index].chan != NULL); w_isout = (chan == mux->output); w_vi = index;
	g_addcb_failed = 0;
	int r = mux_set_input(mux, index, chan);
	if (r == 0 && w_vi == 0) REACH("input 0 set");
	if (r == 0 && w_vi == 77) REACH("input 77 set");
	if (r != 0 && w_taken) REACH("refused: slot taken");
	if (r != 0 && w_isout) REACH("refused: input is the output");
	if (r != 0 && g_addcb_failed) REACH("refused: bay_add_cb failed");
}

/* ---------------- track_th_input_chan: tracking mode -> wiring ---------------- */
WITNESS(track_th_input_chan);
int c_track_th_input_chan(struct track *track, struct chan *sel, struct chan *inp)
__CPROVER_requires(__CPROVER_is_fresh(track, sizeof(*track)) && g_find_failed == 0 && g_addcb_failed == 0 && DIAG_PRE)
__CPROVER_requires(WBIND(track_th_input_chan, w_mode == track->mode && w_same == (sel == &track->ch) && w_isout == (inp == &track->ch)))
__CPROVER_assigns(track->out, track->mux, track->ch.prop[CHAN_DIRTY_WRITE], track->ch.prop[CHAN_ALLOW_DUP], g_find_failed, ADDCB_FRAME, DIAG_FRAME)
__CPROVER_ensures(__CPROVER_return_value == 0 || (__CPROVER_return_value == -1 && g_err > __CPROVER_old(g_err)))
/* always: the timeline row IS the model's channel */
__CPROVER_ensures(track->mode != TRACK_TH_ANY || (__CPROVER_return_value == 0 && track->out == inp))
/* unknown mode: refused */
__CPROVER_ensures((track->mode >= TRACK_TH_ANY && track->mode <= TRACK_TH_ACT) || __CPROVER_return_value != 0)
/* while running / while active: the row is the scratch channel, fed by a one-input mux selected by the
 * thread state through the selector of that mode, input 0 = the model's channel */
__CPROVER_ensures(__CPROVER_return_value != 0 || track->mode == TRACK_TH_ANY || (
	track->out == &track->ch && track->mux.select == sel && track->mux.output == &track->ch && track->mux.ninputs == 1 &&
	track->mux.select_func == (track->mode == TRACK_TH_RUN ? thread_select_running : thread_select_active) &&
	(track->mode == TRACK_TH_RUN || track->mode == TRACK_TH_ACT) &&
	track->mux.inputs[0].chan == inp && track->mux.inputs[0].output == &track->ch && track->mux.inputs[0].index == 0 &&
	track->mux.inputs[0].cb == g_last_cb && g_last_cb != NULL && g_cb_func == cb_input && g_cb_arg == &track->mux.inputs[0] && g_cb_chan == inp && g_cb_en == 0 &&
	track->ch.prop[CHAN_DIRTY_WRITE] == 1 && track->ch.prop[CHAN_ALLOW_DUP] == 1))
/* with a known mode it fails only if the mux could not be built */
__CPROVER_ensures(__CPROVER_return_value == 0 || !(track->mode >= TRACK_TH_ANY && track->mode <= TRACK_TH_ACT) ||
	track->ch.type != CHAN_SINGLE || sel == &track->ch || inp == &track->ch || g_find_failed || g_addcb_failed || track->mux.inputs == NULL)
;
void h_track_th_input_chan(void)
{
	struct track *track; struct chan *sel, *inp;
	WITNESS_ON(track_th_input_chan);
	int r = track_th_input_chan(track, sel, inp);
	if (r == 0 && w_mode == TRACK_TH_ANY) REACH("mode any");
	if (r == 0 && w_mode == TRACK_TH_RUN) REACH("mode run");
	if (r == 0 && w_mode == TRACK_TH_ACT) REACH("mode act");
	if (r != 0 && w_mode == TRACK_TH_MAX) REACH("refused: unknown mode");
	if (r != 0 && w_mode == TRACK_TH_RUN && g_addcb_failed) REACH("refused: mux could not be built");
}

