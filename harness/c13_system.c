/* C13 -- rows of the two Paraver traces: real src/emu/system.c (init_global_indices, system_connect)
 *
 * Bounded: global lists of at most 2 looms / processes / threads / CPUs (linked-list traversal).
 * Shown: the k-th element of each global list gets gindex k and the declared totals are the list
 * lengths; system_connect declares the "cpu" trace with ncpus rows and the "thread" trace with
 * nthreads rows, names row gindex of the thread .row file once per thread and row gindex of the
 * cpu .row file once per CPU, in list order, and labels every CPU in the thread-affinity type. */
#include "prelude.h"
#include "c13_io.h"
#include "pv/pvt.h"
#include "pv/pcf.h"
#include "pv/prv.h"
#include "pv/prf.h"
#include "recorder.h"
#include "thread.h"
#include "cpu.h"
#include "proc.h"
#include "loom.h"

static int c13_print(int nargs, FILE *f, const char *fmt, long a, long b, long c, long d)
{ (void) nargs; (void) f; (void) fmt; (void) a; (void) b; (void) c; (void) d; return nondet_int(); }

/* ---- stubs: gindex setters (thread.c, cpu.c, proc.c, loom.c: `x->gindex = gindex`): logged by ordinal ---- */
int g_k;                                  /* observed ordinal: arbitrary */
int g_tg_n; void *g_tg_obj; int64_t g_tg_idx;
void thread_set_gindex(struct thread *th, int64_t gindex) { if (g_tg_n == g_k) { g_tg_obj = th; g_tg_idx = gindex; } g_tg_n++; }
int g_cg_n; void *g_cg_obj; int64_t g_cg_idx;
void cpu_set_gindex(struct cpu *cpu, int64_t gindex) { if (g_cg_n == g_k) { g_cg_obj = cpu; g_cg_idx = gindex; } g_cg_n++; }
int g_pg_n; void *g_pg_obj; int64_t g_pg_idx;
void proc_set_gindex(struct proc *proc, int64_t gindex) { if (g_pg_n == g_k) { g_pg_obj = proc; g_pg_idx = gindex; } g_pg_n++; }
int g_lg_n; void *g_lg_obj; int64_t g_lg_idx;
void loom_set_gindex(struct loom *loom, int64_t gindex) { if (g_lg_n == g_k) { g_lg_obj = loom; g_lg_idx = gindex; } g_lg_n++; }
#define GIDX_FRAME g_tg_n, g_tg_obj, g_tg_idx, g_cg_n, g_cg_obj, g_cg_idx, g_pg_n, g_pg_obj, g_pg_idx, g_lg_n, g_lg_obj, g_lg_idx

/* ---- stubs: recorder, thread/cpu connection, row names, pcf types ---- */
struct pvt *g_pvt_cpu, *g_pvt_th;
unsigned g_decl_cpu;                      /* type declarations made in the .pcf of the cpu trace */
unsigned g_addc_n, g_addt_n, g_addx_n; long g_addc_rows, g_addt_rows; void *g_add_rec;
struct pvt *recorder_add_pvt(struct recorder *rec, const char *name, long nrows)
{
	g_add_rec = rec;
	struct pvt *r = NULL;
	if (name[0] == 'c') { g_addc_n++; g_addc_rows = nrows; r = g_pvt_cpu; }
	else if (name[0] == 't') { g_addt_n++; g_addt_rows = nrows; r = g_pvt_th; }
	else g_addx_n++;
	if (r == NULL) g_lowfail++;
	return r;
}
struct pvt *recorder_find_pvt(struct recorder *rec, const char *name) { (void) rec; return name[0] == 'c' ? g_pvt_cpu : g_pvt_th; }
int g_tc_n; void *g_tc_obj, *g_tc_bay, *g_tc_rec;
int thread_connect(struct thread *th, struct bay *bay, struct recorder *rec)
{
	if (g_tc_n == g_k) { g_tc_obj = th; g_tc_bay = bay; g_tc_rec = rec; }
	g_tc_n++;
	if (nondet_bool()) { g_lowfail++; return -1; }
	return 0;
}
int g_cc2_n; void *g_cc2_obj, *g_cc2_bay, *g_cc2_rec;
int cpu_connect(struct cpu *cpu, struct bay *bay, struct recorder *rec)
{
	if (g_cc2_n == g_k) { g_cc2_obj = cpu; g_cc2_bay = bay; g_cc2_rec = rec; }
	g_cc2_n++;
	if (nondet_bool()) { g_lowfail++; return -1; }
	return 0;
}
static struct pcf_type g_aff_obj; static struct pcf_value g_val_obj;
/* cpu.c: declares the CPU base types (proved in group cpu_create_pcf_types) */
unsigned g_cp_n; void *g_cp_pcf;
int cpu_create_pcf_types(struct pcf *pcf)
{
	g_cp_n++; g_cp_pcf = pcf;
	if (g_pvt_cpu != NULL && (void *) pcf == (void *) &g_pvt_cpu->pcf) g_decl_cpu++;
	if (nondet_bool()) { g_lowfail++; return -1; }
	return 0;
}
int g_kp;                                 /* observed prf_add ordinal: arbitrary */
int g_pa2_n; void *g_pa2_prf; long g_pa2_idx;
int prf_add(struct prf *prf, long index, const char *name)
{
	(void) name;
	if (g_pa2_n == g_kp) { g_pa2_prf = prf; g_pa2_idx = index; }
	g_pa2_n++;
	if (nondet_bool()) { g_lowfail++; return -1; }
	return 0;
}
unsigned g_tp_n; void *g_tp_pcf;
#define IS_CPU_PCF(pcf) (g_pvt_cpu != NULL && (void *) (pcf) == (void *) &g_pvt_cpu->pcf)
struct pcf_type *pcf_add_type(struct pcf *pcf, int type_id, const char *label)
{
	(void) type_id; (void) label;
	if (IS_CPU_PCF(pcf)) g_decl_cpu++;
	if (nondet_bool()) { g_lowfail++; return NULL; }
	return &g_aff_obj;
}
int thread_create_pcf_types(struct pcf *pcf)
{
	g_tp_n++; g_tp_pcf = pcf;
	if (IS_CPU_PCF(pcf)) g_decl_cpu++;
	if (nondet_bool()) { g_lowfail++; return -1; }
	return 0;
}
unsigned g_af_n; void *g_af_pcf;
struct pcf_type *thread_get_affinity_pcf_type(struct pcf *pcf) { g_af_n++; g_af_pcf = pcf; return &g_aff_obj; }
int g_ca_n; void *g_ca_cpu, *g_ca_type;
struct pcf_value *cpu_add_to_pcf_type(struct cpu *cpu, struct pcf_type *type)
{
	if (g_ca_n == g_k) { g_ca_cpu = cpu; g_ca_type = type; }
	g_ca_n++;
	if (nondet_bool()) { g_lowfail++; return NULL; }
	return &g_val_obj;
}
#define CONN_FRAME g_addc_n, g_addt_n, g_addx_n, g_addc_rows, g_addt_rows, g_add_rec, g_tc_n, g_tc_obj, g_tc_bay, g_tc_rec, \
	g_cc2_n, g_cc2_obj, g_cc2_bay, g_cc2_rec, g_pa2_n, g_pa2_prf, g_pa2_idx, g_tp_n, g_tp_pcf, g_af_n, g_af_pcf, g_ca_n, g_ca_cpu, g_ca_type, g_decl_cpu, g_cp_n, g_cp_pcf

#include "c13_pvtstubs.h"   /* prv_open ... behind pvt.c: logging stubs (not reached from the two entries) */
#include "pv/pvt.c"          /* real: pvt_get_prf, pvt_get_pcf */
#include "system.c"          /* the real /repo/src/emu/system.c */

/* ---- list shapes, at most 2 elements ---- */
#define LIST2(head, T, nx) ((head) == NULL || (__CPROVER_is_fresh(head, sizeof(T)) && \
	((head)->nx == NULL || (__CPROVER_is_fresh((head)->nx, sizeof(T)) && (head)->nx->nx == NULL))))
#define LEN2(head, nx) ((head) == NULL ? 0 : ((head)->nx == NULL ? 1 : 2))
#define EL(head, nx, k) ((k) == 0 ? (void *) (head) : (void *) (head)->nx)

int g_nl, g_np, g_nt, g_nc, g_nphy;
int w_nt, w_nc;
/* =====================================================================================
 * init_global_indices
 * ===================================================================================== */
void c_init_global_indices(struct system *sys)
__CPROVER_requires(__CPROVER_is_fresh(sys, sizeof(struct system)))
__CPROVER_requires(LIST2(sys->looms, struct loom, next) && LIST2(sys->procs, struct proc, gnext) &&
	LIST2(sys->threads, struct thread, gnext) && LIST2(sys->cpus, struct cpu, next))
__CPROVER_requires(g_nl == LEN2(sys->looms, next) && g_np == LEN2(sys->procs, gnext) && g_nt == LEN2(sys->threads, gnext) && g_nc == LEN2(sys->cpus, next))
__CPROVER_requires(g_nphy == (g_nc < 1 ? 0 : (sys->cpus->is_virtual ? 0 : 1)) + (g_nc < 2 ? 0 : (sys->cpus->next->is_virtual ? 0 : 1)))
__CPROVER_requires(g_tg_n == 0 && g_cg_n == 0 && g_pg_n == 0 && g_lg_n == 0 && g_k >= 0 && g_k < 2)
__CPROVER_requires(w_nt == g_nt && w_nc == g_nc)      /* witnesses for native/c13_system_replay.c */
__CPROVER_assigns(sys->nprocs, sys->nthreads, sys->ncpus, sys->nphycpus, GIDX_FRAME)
/* declared totals = list lengths */
__CPROVER_ensures(sys->nthreads == (size_t) g_nt && sys->ncpus == (size_t) g_nc && sys->nprocs == (size_t) g_np && sys->nphycpus == (size_t) g_nphy)
/* every element is numbered once ... */
__CPROVER_ensures(g_tg_n == g_nt && g_cg_n == g_nc && g_pg_n == g_np && g_lg_n == g_nl)
/* ... and the k-th element of each list gets index k (so rows are 0..count-1 in list order) */
__CPROVER_ensures(g_k >= g_nt || (g_tg_obj == EL(sys->threads, gnext, g_k) && g_tg_idx == g_k))
__CPROVER_ensures(g_k >= g_nc || (g_cg_obj == EL(sys->cpus, next, g_k) && g_cg_idx == g_k))
__CPROVER_ensures(g_k >= g_np || (g_pg_obj == EL(sys->procs, gnext, g_k) && g_pg_idx == g_k))
__CPROVER_ensures(g_k >= g_nl || (g_lg_obj == EL(sys->looms, next, g_k) && g_lg_idx == g_k))
;
void h_init_global_indices(void)
{
	struct system *sys;
	init_global_indices(sys);
	if (g_nt == 2 && g_nc == 2 && g_k == 1) REACH("two threads, two CPUs, second observed");
	if (g_nt == 0 && g_nc == 0) REACH("empty system");
	if (g_nc == 2 && g_nphy == 1) REACH("one physical and one virtual CPU");
}

/* =====================================================================================
 * system_connect
 * ===================================================================================== */
#define PVT_OBJ(p) ((p) == NULL || __CPROVER_is_fresh(p, sizeof(struct pvt)))
int c_system_connect(struct system *sys, struct bay *bay, struct recorder *rec)
__CPROVER_requires(__CPROVER_is_fresh(sys, sizeof(struct system)) && PVT_OBJ(g_pvt_cpu) && PVT_OBJ(g_pvt_th))
__CPROVER_requires(LIST2(sys->threads, struct thread, gnext) && LIST2(sys->cpus, struct cpu, next))
__CPROVER_requires(g_nt == LEN2(sys->threads, gnext) && g_nc == LEN2(sys->cpus, next))
__CPROVER_requires(w_nt == g_nt && w_nc == g_nc)      /* witnesses for native/c13_system_replay.c: the shape of the system */
__CPROVER_requires(g_nt < 1 || __CPROVER_is_fresh(sys->threads->proc, sizeof(struct proc)))
__CPROVER_requires(g_nt < 2 || __CPROVER_is_fresh(sys->threads->gnext->proc, sizeof(struct proc)))
/* totals as init_global_indices leaves them (any value that fits a long) */
__CPROVER_requires(sys->ncpus <= INT_MAX && sys->nthreads <= INT_MAX)
__CPROVER_requires(g_addc_n == 0 && g_addt_n == 0 && g_addx_n == 0 && g_tc_n == 0 && g_cc2_n == 0 && g_pa2_n == 0 && g_tp_n == 0 && g_af_n == 0 && g_ca_n == 0 && g_cp_n == 0 && g_decl_cpu == 0)
__CPROVER_requires(g_k >= 0 && g_k < 2 && g_kp >= 0 && g_kp < 4 && DIAG_PRE && LOW_PRE && g_snp_n < 1000000u)
__CPROVER_assigns(CONN_FRAME, DIAG_FRAME, g_lowfail, g_snp_ret, g_snp_n)
__CPROVER_ensures((RV == 0) == (g_lowfail == OLD(g_lowfail)))
/* the CPU base types are declared once, in the cpu .pcf, and the thread types do not leak into it */
__CPROVER_ensures(RV != 0 || (g_cp_n == 1 && g_cp_pcf == (void *) &g_pvt_cpu->pcf && g_decl_cpu == 1))
__CPROVER_ensures(RV == 0 || (RV == -1 && g_err > OLD(g_err)))
/* the two traces are declared once each, with the system totals as row counts */
__CPROVER_ensures(RV != 0 || (g_addc_n == 1 && g_addt_n == 1 && g_addx_n == 0 && g_addc_rows == (long) sys->ncpus && g_addt_rows == (long) sys->nthreads && g_add_rec == (void *) rec))
/* every thread and CPU is connected once, in list order */
__CPROVER_ensures(RV != 0 || (g_tc_n == g_nt && g_cc2_n == g_nc && g_ca_n == g_nc))
__CPROVER_ensures(RV != 0 || g_k >= g_nt || (g_tc_obj == EL(sys->threads, gnext, g_k) && g_tc_bay == (void *) bay && g_tc_rec == (void *) rec))
__CPROVER_ensures(RV != 0 || g_k >= g_nc || (g_cc2_obj == EL(sys->cpus, next, g_k) && g_cc2_bay == (void *) bay && g_cc2_rec == (void *) rec))
/* one row name per thread in the thread .row, then one per CPU in the cpu .row, at row = gindex */
__CPROVER_ensures(RV != 0 || g_pa2_n == g_nt + g_nc)
__CPROVER_ensures(RV != 0 || g_kp >= g_nt || (g_pa2_prf == (void *) &g_pvt_th->prf &&
	g_pa2_idx == (long) (g_kp == 0 ? sys->threads->gindex : sys->threads->gnext->gindex)))
__CPROVER_ensures(RV != 0 || g_kp < g_nt || g_kp >= g_nt + g_nc || (g_pa2_prf == (void *) &g_pvt_cpu->prf &&
	g_pa2_idx == (long) (g_kp - g_nt == 0 ? sys->cpus->gindex : sys->cpus->next->gindex)))
/* thread types are declared in the thread .pcf; every CPU is labelled in its affinity type */
__CPROVER_ensures(RV != 0 || (g_tp_n == 1 && g_tp_pcf == (void *) &g_pvt_th->pcf && g_af_n == 1 && g_af_pcf == (void *) &g_pvt_th->pcf))
__CPROVER_ensures(RV != 0 || g_k >= g_nc || (g_ca_cpu == EL(sys->cpus, next, g_k) && g_ca_type == (void *) &g_aff_obj))
;
void h_system_connect(void)
{
	struct system *sys; struct bay *bay; struct recorder *rec;
	int r = system_connect(sys, bay, rec);
	if (r == 0 && g_nt == 2 && g_nc == 2 && g_kp == 3 && g_k == 1) REACH("two threads and two CPUs connected");
	if (r == 0 && g_nt == 0 && g_nc == 0) REACH("empty system connected");
	if (r == 0 && g_nt == 1 && g_nc == 2 && g_kp == 1) REACH("first CPU row observed after one thread row");
	if (r != 0) REACH("failure propagated");
}

/* =====================================================================================
 * Regression obligation of finding D11 (fixed in /repo by 65280b6): the cpu trace prints the CPU
 * base types PRV_CPU_PID=1, PRV_CPU_TID=2, PRV_CPU_NRUN=3 (cpu.c chan_type, registered by
 * cpu_connect for every CPU); before the fix nothing declared a type in the .pcf of the cpu trace
 * (cpu.prv held 1,2,3, cpu.pcf only model types).  An accepted system_connect must declare the CPU
 * types in the cpu .pcf (cpu_create_pcf_types, proved in group cpu_create_pcf_types), exactly once.
 * ===================================================================================== */
int ck_system_connect(struct system *sys, struct bay *bay, struct recorder *rec)
__CPROVER_requires(__CPROVER_is_fresh(sys, sizeof(struct system)) && PVT_OBJ(g_pvt_cpu) && PVT_OBJ(g_pvt_th))
__CPROVER_requires(LIST2(sys->threads, struct thread, gnext) && LIST2(sys->cpus, struct cpu, next))
__CPROVER_requires(g_nt == LEN2(sys->threads, gnext) && g_nc == LEN2(sys->cpus, next))
__CPROVER_requires(w_nt == g_nt && w_nc == g_nc)      /* witnesses for native/c13_system_replay.c: the shape of the system */
__CPROVER_requires(g_nt < 1 || __CPROVER_is_fresh(sys->threads->proc, sizeof(struct proc)))
__CPROVER_requires(g_nt < 2 || __CPROVER_is_fresh(sys->threads->gnext->proc, sizeof(struct proc)))
__CPROVER_requires(sys->ncpus <= INT_MAX && sys->nthreads <= INT_MAX && g_decl_cpu == 0)
__CPROVER_requires(g_addc_n == 0 && g_addt_n == 0 && g_addx_n == 0 && g_tc_n == 0 && g_cc2_n == 0 && g_pa2_n == 0 && g_tp_n == 0 && g_af_n == 0 && g_ca_n == 0 && g_cp_n == 0)
__CPROVER_requires(g_k >= 0 && g_k < 2 && g_kp >= 0 && g_kp < 4 && DIAG_PRE && LOW_PRE && g_snp_n < 1000000u)
__CPROVER_assigns(CONN_FRAME, DIAG_FRAME, g_lowfail, g_snp_ret, g_snp_n)
__CPROVER_ensures(RV != 0 || (g_decl_cpu == 1 && g_cp_n == 1 && g_cp_pcf == (void *) &g_pvt_cpu->pcf))
;
void h_cpu_types_declared(void)
{
	struct system *sys; struct bay *bay; struct recorder *rec;
	int r = system_connect(sys, bay, rec);
	if (r == 0 && g_nc > 0) REACH("accepted with at least one CPU");
	if (r == 0 && g_nc == 0) REACH("accepted without CPUs");
}
