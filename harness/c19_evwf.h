/* C19 -- EMU_EV_WF: the decoded event view, as emu_ev() produces it from an event that
 * lies inside the stream (proved in group emu_ev):
 *   payload_size is 0, 2..16 (normal) or 4 + jumbo.size (jumbo, <= INT32_MAX - 12);
 *   payload == NULL and has_payload == 0 iff payload_size == 0;
 *   otherwise payload points to payload_size readable bytes;
 *   is_jumbo implies payload->jumbo.size + 4 == payload_size.
 *
 * Object given to CBMC for the payload: payload_size bytes, but never fewer than 16.
 * Reason (measured): CBMC's pointer check treats `payload->i32[0]` or
 * `payload->jumbo.size` as an access to the whole 16-byte union, so an object of
 * exactly 4 bytes fails on a correct 4-byte read.  Reads through memcpy/memchr are
 * checked byte-exact by the stubs below against payload_size (ghost g_psize), and
 * direct member reads are pinned by functional postconditions (the value used is the
 * one at the stated payload bytes, and the handler compared payload_size first). */
#ifndef C19_EVWF_H
#define C19_EVWF_H
#include "emu_ev.h"
#include "ovni.h"

_Static_assert(sizeof(union ovni_ev_payload) == 16, "payload union is 16 bytes");

#define C19_MAX_PSIZE ((size_t) INT32_MAX - 12)
#define EMU_EV_WF_VALS(ev) ( \
	(ev)->payload_size <= C19_MAX_PSIZE && (ev)->payload_size != 1 && \
	((ev)->is_jumbo == 0 || (ev)->is_jumbo == 1) && \
	((ev)->is_jumbo || (ev)->payload_size <= 16) && \
	(!(ev)->is_jumbo || (ev)->payload_size >= 4) && \
	(ev)->has_payload == ((ev)->payload_size > 0) && \
	(((ev)->payload == NULL) == ((ev)->payload_size == 0)))
#define PAYLOAD_OBJ_SIZE(ev) ((ev)->payload_size < 16 ? (size_t) 16 : (ev)->payload_size)
/* for requires clauses */
#define EMU_EV_WF(ev) ( \
	__CPROVER_is_fresh(ev, sizeof(struct emu_ev)) && EMU_EV_WF_VALS_NOPTR(ev) && \
	(((ev)->payload_size == 0 && (ev)->payload == NULL) || \
	 ((ev)->payload_size != 0 && __CPROVER_is_fresh((ev)->payload, PAYLOAD_OBJ_SIZE(ev)))) && \
	(!(ev)->is_jumbo || (size_t) (ev)->payload->jumbo.size + 4 == (ev)->payload_size))
#define EMU_EV_WF_VALS_NOPTR(ev) ( \
	(ev)->payload_size <= C19_MAX_PSIZE && (ev)->payload_size != 1 && \
	((ev)->is_jumbo == 0 || (ev)->is_jumbo == 1) && \
	((ev)->is_jumbo || (ev)->payload_size <= 16) && \
	(!(ev)->is_jumbo || (ev)->payload_size >= 4) && \
	(ev)->has_payload == ((ev)->payload_size > 0))

/* payload bytes as little-endian integers (x86-64, the only supported target layout) */
#define PL_U8(ev, k)  (((const uint8_t *) (ev)->payload)[k])
#define PL_I32(ev, k) (*(const int32_t *) ((const uint8_t *) (ev)->payload + 4 * (k)))
#define PL_U32(ev, k) (*(const uint32_t *) ((const uint8_t *) (ev)->payload + 4 * (k)))
#define PL_I64(ev, k) (*(const int64_t *) ((const uint8_t *) (ev)->payload + 8 * (k)))

#endif
