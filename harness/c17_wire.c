/* C17 -- mark API, emulator side, wiring of the mark channels (real src/emu/ovni/mark.c):
 *   create_thread_chan  one channel per mark type and thread (type's own channel type,
 *                       duplicates allowed), one track per type in mode TRACK_TH_ACT
 *   init_cpu            one track per type and CPU, mode TRACK_TH_RUN
 *   connect_thread_prv  channel -> track (selected by the thread's state channel) -> thread
 *                       PRV row of the thread, Paraver type = the mark type's prvtype
 *   connect_cpu_prv     every thread's channel is an input (index = thread gindex) of the CPU's
 *                       track, selected by the CPU's running-thread channel -> CPU PRV row
 *   create_type         PCF: type prvtype with the title, one value per registered label
 * The loops walk the uthash application-order list (hh.next): bounded stand-in, at most two
 * mark types / threads / labels.  What the tracking modes MEAN (ACT = running, cooling or
 * warming; RUN = running) and what a track does with them is proved in C06.
 *
 * Other emulator modules (bay.c, chan.c, track.c, cpu.c, pv/prv.c, pv/pcf.c) are outside
 * the unit: stubs that log the k-th call with its arguments; each may fail (counted in
 * g_lowfail). */
#include "c17_mark.h"
#include "extend.c"          /* real extend_get (EXT macro) */
#include "ovni/mark.c"       /* the real /repo/src/emu/ovni/mark.c */

_Static_assert(PRV_OVNI_MARK == 100, "statement: Paraver type 100 + mark type");

static int c17_may_fail(void) { if (nondet_bool()) { g_lowfail++; verif_err(); return -1; } return 0; }

void chan_prop_set(struct chan *chan, enum chan_prop prop, int value) { c17_log(&g_l_prop, chan, (long) prop, (long) value, 0, NULL, NULL); }
int bay_register(struct bay *bay, struct chan *chan) { c17_log(&g_l_bayreg, chan, 0, 0, 0, bay, NULL); return c17_may_fail(); }
int track_connect_thread(struct track *tracks, struct chan *chans, struct chan *sel, int n)
{ c17_log(&g_l_connect, tracks, (long) n, 0, 0, chans, sel); return c17_may_fail(); }
/* the output channel of a track: an injective function of the track */
#define OUT_OF(tr) ((struct chan *) ((char *) (tr) + 1))
struct chan *track_get_output(struct track *track) { c17_log(&g_l_getout, track, 0, 0, 0, NULL, NULL); return OUT_OF(track); }
int track_set_select(struct track *track, struct chan *sel, mux_select_func_t fsel, int64_t ninputs)
{ c17_log(&g_l_select, track, (long) ninputs, (long) (fsel == NULL), 0, sel, NULL); return c17_may_fail(); }
int track_set_input(struct track *track, int64_t index, struct chan *inp)
{ c17_log(&g_l_input, track, (long) index, 0, 0, inp, NULL); return c17_may_fail(); }
int prv_register(struct prv *prv, long row, long type, struct bay *bay, struct chan *chan, long flags)
{ c17_log(&g_l_prvreg, prv, row, type, flags, bay, chan); return c17_may_fail(); }
/* the running-thread channel of a CPU: an injective function of the CPU */
#define THCHAN_OF(cpu) ((struct chan *) ((char *) (cpu) + 2))
struct chan *cpu_get_th_chan(struct cpu *cpu) { c17_log(&g_l_cputh, cpu, 0, 0, 0, NULL, NULL); return THCHAN_OF(cpu); }
static char c17_opaque[8];
#define PCFTYPE_OF(pcf) ((struct pcf_type *) &c17_opaque[3])
struct pcf_type *pcf_add_type(struct pcf *pcf, int type_id, const char *label)
{ c17_log(&g_l_pcftype, pcf, (long) type_id, 0, 0, (void *) label, NULL); if (c17_may_fail()) return NULL; return PCFTYPE_OF(pcf); }
struct pcf_value *pcf_add_value(struct pcf_type *type, int value, const char *label)
{ c17_log(&g_l_pcfval, type, (long) value, 0, 0, (void *) label, NULL); if (c17_may_fail()) return NULL; return (struct pcf_value *) ((char *) type + 1); }

#define LOGS_PRE (g_l_calloc.n == 0 && g_l_chan_init.n == 0 && g_l_track_init.n == 0 && g_l_prop.n == 0 && g_l_bayreg.n == 0 && \
	g_l_connect.n == 0 && g_l_prvreg.n == 0 && g_l_select.n == 0 && g_l_input.n == 0 && g_l_pcftype.n == 0 && g_l_pcfval.n == 0 && \
	g_l_cputh.n == 0 && g_l_getout.n == 0 && LOW_PRE && DIAG_PRE)
/* the harness empties the logs itself (after DFCC's havoc of statics): with concrete counters
 * every log write has a constant index (MEASURED: symbolic counters cost minutes of symex) */
#define RESET_LOGS() { g_l_calloc.n = 0; g_l_chan_init.n = 0; g_l_track_init.n = 0; g_l_prop.n = 0; g_l_bayreg.n = 0; \
	g_l_connect.n = 0; g_l_prvreg.n = 0; g_l_select.n = 0; g_l_input.n = 0; g_l_pcftype.n = 0; g_l_pcfval.n = 0; \
	g_l_cputh.n = 0; g_l_getout.n = 0; }
#define LOGS_FRAME CALLOC_FRAME, DIAG_FRAME

/* ---- the type table as mark_create leaves it: a list of one or two types in definition
 * order (hh.next), ntypes = its length, indices a permutation of 0..ntypes-1, prvtype =
 * 100 + type (create_mark_type, proved in group create_mark_type) ---- */
#define T0(m) ((m)->types)
#define T1(m) ((struct mark_type *) (m)->types->hh.next)
#define TYPE_WF(t, m) ((t)->index >= 0 && (t)->index < (m)->ntypes && (t)->type >= 0 && (t)->type < 100 && (t)->prvtype == 100 + (t)->type && \
	((t)->ctype == CHAN_SINGLE || (t)->ctype == CHAN_STACK))
#define TYPES_WF(m) (__CPROVER_is_fresh(T0(m), sizeof(struct mark_type)) && \
	((T0(m)->hh.next == NULL && (m)->ntypes == 1) || \
	 (__CPROVER_is_fresh(T0(m)->hh.next, sizeof(struct mark_type)) && T1(m)->hh.next == NULL && (m)->ntypes == 2 && \
	  TYPE_WF(T1(m), m) && T1(m)->index != T0(m)->index && T1(m)->type != T0(m)->type)) && \
	TYPE_WF(T0(m), m))
#define NT(m) ((unsigned) (m)->ntypes)
/* the k-th logged call is (obj, a, b, c, p, q) */
#define CALL_IS(l, k, o_, a_, b_, c_, p_, q_) ((l).c[k].obj == (void *) (o_) && (l).c[k].a == (long) (a_) && (l).c[k].b == (long) (b_) && \
	(l).c[k].c == (long) (c_) && (l).c[k].p == (void *) (p_) && (l).c[k].q == (void *) (q_))
/* for every type of the list (position k = 0, 1): E(k, type) */
#define FOR_TYPES(m, E) (E(0, T0(m)) && ((m)->ntypes == 1 || E(1, T1(m))))

#define OTHM(th) (&((struct ovni_thread *) (th)->ext.ctx['O'])->mark)
#define OCPUM(cpu) (&((struct ovni_cpu *) (cpu)->ext.ctx['O'])->mark)
#define OEMUM(emu) (&((struct ovni_emu *) (emu)->ext.ctx['O'])->mark)

long w_ntypes, w_i0, w_i1; int w_ct0, w_ct1;
#define W_TYPES(m) (w_ntypes == (m)->ntypes && w_i0 == T0(m)->index && w_ct0 == (int) T0(m)->ctype && \
	((m)->ntypes == 1 || (w_i1 == T1(m)->index && w_ct1 == (int) T1(m)->ctype)))

/* =====================================================================================
 * create_thread_chan
 * ===================================================================================== */
WITNESS(create_thread_chan);
#define CTC_INIT(k, t) CALL_IS(g_l_chan_init, k, &OTHM(th)->channels[(t)->index], (t)->ctype, 0, 0, NULL, NULL)
#define CTC_PROP(k, t) CALL_IS(g_l_prop, k, &OTHM(th)->channels[(t)->index], CHAN_ALLOW_DUP, 1, 0, NULL, NULL)
#define CTC_BAY(k, t) CALL_IS(g_l_bayreg, k, &OTHM(th)->channels[(t)->index], 0, 0, 0, bay, NULL)
/* "while the thread is active": thread-side tracks follow the ACTIVE states */
#define CTC_TRACK(k, t) CALL_IS(g_l_track_init, k, &OTHM(th)->track[(t)->index], TRACK_TYPE_TH, TRACK_TH_ACT, 0, bay, NULL)
int c_create_thread_chan(struct ovni_mark_emu *m, struct bay *bay, struct thread *th)
__CPROVER_requires(__CPROVER_is_fresh(m, sizeof(*m)) && TYPES_WF(m))
__CPROVER_requires(__CPROVER_is_fresh(th, sizeof(*th)) && __CPROVER_is_fresh(th->ext.ctx['O'], sizeof(struct ovni_thread)))
__CPROVER_requires(LOGS_PRE)
__CPROVER_requires(WBIND(create_thread_chan, W_TYPES(m)))
__CPROVER_assigns(OTHM(th)->channels, OTHM(th)->nchannels, OTHM(th)->track, LOGS_FRAME)
__CPROVER_ensures(RV == 0 || RV == -1)
__CPROVER_ensures((RV == 0) == (g_lowfail == OLD(g_lowfail)))
/* one zero-filled channel and one track per type */
__CPROVER_ensures(RV != 0 || (OTHM(th)->nchannels == m->ntypes && g_l_calloc.n == 2 &&
	CALL_IS(g_l_calloc, 0, OTHM(th)->channels, m->ntypes, sizeof(struct chan), 0, NULL, NULL) &&
	CALL_IS(g_l_calloc, 1, OTHM(th)->track, m->ntypes, sizeof(struct track), 0, NULL, NULL)))
/* the channel at the type's index has the type's channel type, allows duplicates, is registered */
__CPROVER_ensures(RV != 0 || (g_l_chan_init.n == NT(m) && FOR_TYPES(m, CTC_INIT)))
__CPROVER_ensures(RV != 0 || (g_l_prop.n == NT(m) && FOR_TYPES(m, CTC_PROP)))
__CPROVER_ensures(RV != 0 || (g_l_bayreg.n == NT(m) && FOR_TYPES(m, CTC_BAY)))
/* the track at the type's index is a thread track in mode ACTIVE */
__CPROVER_ensures(RV != 0 || (g_l_track_init.n == NT(m) && FOR_TYPES(m, CTC_TRACK)))
__CPROVER_ensures(RV == 0 || g_err > OLD(g_err))
;
void h_create_thread_chan(void)
{
	struct ovni_mark_emu *m; struct bay *bay; struct thread *th;
	RESET_LOGS();
	WITNESS_ON(create_thread_chan);
	int r = create_thread_chan(m, bay, th);
	if (r == 0 && w_ntypes == 1) REACH("one type wired");
	if (r == 0 && w_ntypes == 2 && w_i0 == 0 && w_ct0 == CHAN_STACK && w_ct1 == CHAN_SINGLE) REACH("two types wired (stack, single)");
	if (r == 0 && w_ntypes == 2 && w_i0 == 1) REACH("two types wired, list in reverse index order");
	if (r != 0) REACH("refused by a lower layer");
}

/* =====================================================================================
 * init_cpu
 * ===================================================================================== */
WITNESS(init_cpu);
/* "the CPU where it runs": CPU-side tracks follow the RUNNING thread */
#define IC_TRACK(k, t) CALL_IS(g_l_track_init, k, &OCPUM(cpu)->track[(t)->index], TRACK_TYPE_TH, TRACK_TH_RUN, 0, bay, NULL)
int c_init_cpu(struct ovni_mark_emu *m, struct bay *bay, struct cpu *cpu)
__CPROVER_requires(__CPROVER_is_fresh(m, sizeof(*m)) && TYPES_WF(m))
__CPROVER_requires(__CPROVER_is_fresh(cpu, sizeof(*cpu)) && __CPROVER_is_fresh(cpu->ext.ctx['O'], sizeof(struct ovni_cpu)))
__CPROVER_requires(LOGS_PRE)
__CPROVER_requires(WBIND(init_cpu, W_TYPES(m)))
__CPROVER_assigns(OCPUM(cpu)->track, LOGS_FRAME)
__CPROVER_ensures(RV == 0 || RV == -1)
__CPROVER_ensures((RV == 0) == (g_lowfail == OLD(g_lowfail)))
__CPROVER_ensures(RV != 0 || (g_l_calloc.n == 1 && CALL_IS(g_l_calloc, 0, OCPUM(cpu)->track, m->ntypes, sizeof(struct track), 0, NULL, NULL)))
__CPROVER_ensures(RV != 0 || (g_l_track_init.n == NT(m) && FOR_TYPES(m, IC_TRACK)))
__CPROVER_ensures(g_l_chan_init.n == 0 && g_l_bayreg.n == 0)
__CPROVER_ensures(RV == 0 || g_err > OLD(g_err))
;
void h_init_cpu(void)
{
	struct ovni_mark_emu *m; struct bay *bay; struct cpu *cpu;
	RESET_LOGS();
	WITNESS_ON(init_cpu);
	int r = init_cpu(m, bay, cpu);
	if (r == 0 && w_ntypes == 1) REACH("one type");
	if (r == 0 && w_ntypes == 2) REACH("two types");
	if (r != 0) REACH("refused by a lower layer");
}

/* =====================================================================================
 * connect_thread_prv / connect_cpu_prv
 *
 * MEASURED: with every object bound by __CPROVER_is_fresh and the contract written over the
 * access paths (emu->ext.ctx['O'] -> mark.types -> hh.next ...), evaluating the requires
 * clauses alone takes 20-70 s of symbolic execution per clause (each macro use re-dereferences
 * the whole chain), connect_cpu_prv does not finish in 240 s.  Therefore the HARNESS
 * allocates the objects one by one (malloc(sizeof(T)), arbitrary content), links them, and
 * names them in ghost pointers (g_m, g_t0, ...); the contract ties each ghost pointer to the
 * access path ONCE (requires g_m == &EXT(emu)->mark ...) and speaks about the ghosts.
 * ===================================================================================== */
#define OBJ(p) ((p) != NULL && __CPROVER_rw_ok((p), sizeof(*(p))))
struct ovni_mark_emu *g_m; struct mark_type *g_t0, *g_t1;
struct ovni_mark_thread *g_mth, *g_mth0, *g_mth1; struct ovni_mark_cpu *g_mcpu; struct thread *g_th0, *g_th1;
enum { C17_CHAN_SZ = sizeof(struct chan), C17_TRACK_SZ = sizeof(struct track) };
#define NEW(T, p) T *p = malloc(sizeof(T)); if (p == NULL) return
/* emu with its ovni extension and a list of one or two mark types */
#define NEW_EMU(emu) NEW(struct emu, emu); NEW(struct ovni_emu, c17_oemu); NEW(struct mark_type, c17_t0); NEW(struct mark_type, c17_t1); \
	emu->ext.ctx['O'] = c17_oemu; c17_oemu->mark.types = c17_t0; c17_t1->hh.next = NULL; \
	if (nondet_bool()) { c17_t0->hh.next = c17_t1; c17_oemu->mark.ntypes = 2; g_t1 = c17_t1; } else { c17_t0->hh.next = NULL; c17_oemu->mark.ntypes = 1; g_t1 = NULL; } \
	g_m = &c17_oemu->mark; g_t0 = c17_t0
/* thread with its ovni extension, one channel and one track per mark type (byte arrays: only
 * addresses into them are taken) */
#define NEW_THREAD(th, mth, n) NEW(struct thread, th); NEW(struct ovni_thread, th##_o); th->ext.ctx['O'] = th##_o; \
	th##_o->mark.channels = malloc((size_t) (n) * (size_t) C17_CHAN_SZ); th##_o->mark.track = malloc((size_t) (n) * (size_t) C17_TRACK_SZ); \
	if (th##_o->mark.channels == NULL || th##_o->mark.track == NULL) return; \
	mth = &th##_o->mark
/* the ghosts name exactly the objects the code reaches; table invariant on the values */
#define TYPES_TIED(emu) (OBJ(emu) && g_m == OEMUM(emu) && OBJ(g_m) && g_t0 == g_m->types && OBJ(g_t0) && g_t1 == (struct mark_type *) g_t0->hh.next && \
	(g_t1 == NULL || (OBJ(g_t1) && g_t1->hh.next == NULL)) && g_m->ntypes == (g_t1 == NULL ? 1 : 2) && \
	TYPE_WF(g_t0, g_m) && (g_t1 == NULL || (TYPE_WF(g_t1, g_m) && g_t1->index != g_t0->index && g_t1->type != g_t0->type)))
#define FOR_GT(E) (E(0, g_t0) && (g_t1 == NULL || E(1, g_t1)))
#define W_GTYPES (w_ntypes == g_m->ntypes && w_i0 == g_t0->index && w_ct0 == (int) g_t0->ctype && \
	(g_t1 == NULL || (w_i1 == g_t1->index && w_ct1 == (int) g_t1->ctype)))

WITNESS(connect_thread_prv);
long long w_gindex;
/* the type's channel feeds the type's track, selected by the thread's own STATE channel */
#define CTP_CONN(k, t) CALL_IS(g_l_connect, k, &g_mth->track[(t)->index], 1, 0, 0, &g_mth->channels[(t)->index], &sth->chan[TH_CHAN_STATE])
/* the track's output goes to the thread's row under the type's Paraver type; nulls are skipped */
#define CTP_PRV(k, t) CALL_IS(g_l_prvreg, k, prv, sth->gindex, (t)->prvtype, PRV_SKIPDUPNULL, &emu->bay, OUT_OF(&g_mth->track[(t)->index]))
int c_connect_thread_prv(struct emu *emu, struct thread *sth, struct prv *prv)
__CPROVER_requires(TYPES_TIED(emu))
__CPROVER_requires(OBJ(sth) && g_mth == OTHM(sth) && OBJ(g_mth))
__CPROVER_requires(__CPROVER_rw_ok(g_mth->channels, (size_t) g_m->ntypes * sizeof(struct chan)))
__CPROVER_requires(__CPROVER_rw_ok(g_mth->track, (size_t) g_m->ntypes * sizeof(struct track)))
__CPROVER_requires(LOGS_PRE)
__CPROVER_requires(WBIND(connect_thread_prv, W_GTYPES && w_gindex == sth->gindex))
__CPROVER_assigns(LOGS_FRAME)
__CPROVER_ensures(RV == 0 || RV == -1)
__CPROVER_ensures((RV == 0) == (g_lowfail == OLD(g_lowfail)))
__CPROVER_ensures(RV != 0 || (g_l_connect.n == NT(g_m) && FOR_GT(CTP_CONN)))
__CPROVER_ensures(RV != 0 || (g_l_prvreg.n == NT(g_m) && FOR_GT(CTP_PRV)))
/* Paraver type 100 + mark type */
__CPROVER_ensures(RV != 0 || (g_l_prvreg.c[0].b == 100 + g_t0->type && (g_t1 == NULL || g_l_prvreg.c[1].b == 100 + g_t1->type)))
__CPROVER_ensures(RV == 0 || g_err > OLD(g_err))
;
void h_connect_thread_prv(void)
{
	struct prv *prv;
	NEW_EMU(emu);
	NEW_THREAD(sth, g_mth, c17_oemu->mark.ntypes);
	RESET_LOGS();
	WITNESS_ON(connect_thread_prv);
	int r = connect_thread_prv(emu, sth, prv);
	if (r == 0 && w_ntypes == 1) REACH("one type connected");
	if (r == 0 && w_ntypes == 2 && w_gindex == 7) REACH("two types connected for thread 7");
	if (r != 0) REACH("refused by a lower layer");
}

/* ---- connect_cpu_prv  (<= 2 types, <= 2 threads) ---- */
WITNESS(connect_cpu_prv);
long w_nth; long long w_g0, w_g1, w_cpu_gindex;
#define NTH (g_th1 == NULL ? 1u : 2u)
/* per type k: the track is selected by the CPU's running-thread channel with the default
 * selector (NULL) over nthreads inputs ... */
#define CCP_SEL(k, t) (CALL_IS(g_l_select, k, &g_mcpu->track[(t)->index], emu->system.nthreads, 1, 0, THCHAN_OF(scpu), NULL) && \
	CALL_IS(g_l_cputh, k, scpu, 0, 0, 0, NULL, NULL))
/* ... input number gindex(thread) is that thread's channel of the same type ... */
#define CCP_INP1(k, t, j, th, mth) CALL_IS(g_l_input, (k) * NTH + (j), &g_mcpu->track[(t)->index], (th)->gindex, 0, 0, &(mth)->channels[(t)->index], NULL)
#define CCP_INP(k, t) (CCP_INP1(k, t, 0, g_th0, g_mth0) && (g_th1 == NULL || CCP_INP1(k, t, 1, g_th1, g_mth1)))
/* ... and its output goes to the CPU's row under the type's Paraver type */
#define CCP_PRV(k, t) CALL_IS(g_l_prvreg, k, prv, scpu->gindex, (t)->prvtype, PRV_SKIPDUPNULL, &emu->bay, OUT_OF(&g_mcpu->track[(t)->index]))
#define THREAD_TIED(th, mth) (OBJ(th) && mth == OTHM(th) && OBJ(mth) && __CPROVER_rw_ok((mth)->channels, (size_t) g_m->ntypes * sizeof(struct chan)))
int c_connect_cpu_prv(struct emu *emu, struct cpu *scpu, struct prv *prv)
__CPROVER_requires(TYPES_TIED(emu))
__CPROVER_requires(OBJ(scpu) && g_mcpu == OCPUM(scpu) && OBJ(g_mcpu))
__CPROVER_requires(__CPROVER_rw_ok(g_mcpu->track, (size_t) g_m->ntypes * sizeof(struct track)))
__CPROVER_requires(g_th0 == emu->system.threads && THREAD_TIED(g_th0, g_mth0) && g_th1 == g_th0->gnext)
__CPROVER_requires(g_th1 == NULL || (g_th1->gnext == NULL && THREAD_TIED(g_th1, g_mth1)))
/* system.nthreads (size_t) is converted to int64_t: the number of loaded threads fits */
__CPROVER_requires(emu->system.nthreads <= (size_t) INT64_MAX)
__CPROVER_requires(LOGS_PRE)
__CPROVER_requires(WBIND(connect_cpu_prv, W_GTYPES && w_nth == (long) NTH && w_g0 == g_th0->gindex && (g_th1 == NULL || w_g1 == g_th1->gindex) &&
	w_cpu_gindex == scpu->gindex))
__CPROVER_assigns(LOGS_FRAME)
__CPROVER_ensures(RV == 0 || RV == -1)
__CPROVER_ensures((RV == 0) == (g_lowfail == OLD(g_lowfail)))
__CPROVER_ensures(RV != 0 || (g_l_select.n == NT(g_m) && g_l_cputh.n == NT(g_m) && FOR_GT(CCP_SEL)))
__CPROVER_ensures(RV != 0 || (g_l_input.n == NT(g_m) * NTH && FOR_GT(CCP_INP)))
__CPROVER_ensures(RV != 0 || (g_l_prvreg.n == NT(g_m) && FOR_GT(CCP_PRV)))
__CPROVER_ensures(RV != 0 || (g_l_prvreg.c[0].b == 100 + g_t0->type && (g_t1 == NULL || g_l_prvreg.c[1].b == 100 + g_t1->type)))
__CPROVER_ensures(RV == 0 || g_err > OLD(g_err))
;
void h_connect_cpu_prv(void)
{
	struct prv *prv;
	NEW_EMU(emu);
	NEW_THREAD(th0, g_mth0, c17_oemu->mark.ntypes);
	NEW_THREAD(th1, g_mth1, c17_oemu->mark.ntypes);
	th1->gnext = NULL;
	emu->system.threads = th0;
	g_th0 = th0;
	if (nondet_bool()) { th0->gnext = th1; g_th1 = th1; } else { th0->gnext = NULL; g_th1 = NULL; }
	NEW(struct cpu, scpu); NEW(struct ovni_cpu, ocpu);
	scpu->ext.ctx['O'] = ocpu;
	ocpu->mark.track = malloc((size_t) c17_oemu->mark.ntypes * (size_t) C17_TRACK_SZ);
	if (ocpu->mark.track == NULL) return;
	g_mcpu = &ocpu->mark;
	RESET_LOGS();
	WITNESS_ON(connect_cpu_prv);
	int r = connect_cpu_prv(emu, scpu, prv);
	if (r == 0 && w_ntypes == 1 && w_nth == 1) REACH("one type, one thread");
	if (r == 0 && w_ntypes == 2 && w_nth == 2 && w_g0 == 5 && w_g1 == 3) REACH("two types, threads 5 and 3");
	if (r != 0) REACH("refused by a lower layer");
}

/* =====================================================================================
 * create_type (PCF): the type's Paraver type and title, and every registered label under
 * its value.  (<= 2 labels)
 * ===================================================================================== */
WITNESS(create_type);
long w_nlabels; long long w_v0, w_v1; long w_prvtype;
#define L0(t) ((t)->labels)
#define L1(t) ((struct mark_label *) (t)->labels->hh.next)
#define NL(t) ((t)->labels == NULL ? 0u : L1(t) == NULL ? 1u : 2u)
/* label values reach the PCF as int (pcf_add_value(type, int value, label)) */
#define REALLY_FITS_INT(v) ((v) >= INT_MIN && (v) <= INT_MAX)
#ifdef C17_ANYVALUE   /* twin group of known finding F-C17-1: no carve-out; exactly the conversion check
                       * `(int) l->value` in create_type must FAIL, everything else must still hold */
#define FITS_INT(v) 1
#else
#define FITS_INT(v) REALLY_FITS_INT(v)
#endif
int c_create_type(struct pcf *pcf, struct mark_type *type)
__CPROVER_requires(__CPROVER_is_fresh(type, sizeof(*type)) && type->type >= 0 && type->type < 100 && type->prvtype == 100 + type->type)
__CPROVER_requires(L0(type) == NULL || (__CPROVER_is_fresh(L0(type), sizeof(struct mark_label)) && FITS_INT(L0(type)->value) &&
	(L0(type)->hh.next == NULL || (__CPROVER_is_fresh(L0(type)->hh.next, sizeof(struct mark_label)) && L1(type)->hh.next == NULL && FITS_INT(L1(type)->value)))))
__CPROVER_requires(LOGS_PRE)
__CPROVER_requires(WBIND(create_type, w_nlabels == (long) NL(type) && w_prvtype == type->prvtype &&
	(NL(type) < 1 || w_v0 == L0(type)->value) && (NL(type) < 2 || w_v1 == L1(type)->value)))
__CPROVER_assigns(LOGS_FRAME)
__CPROVER_ensures(RV == 0 || RV == -1)
__CPROVER_ensures((RV == 0) == (g_lowfail == OLD(g_lowfail)))
/* the section of the type: Paraver type 100 + mark type, with the registered title */
__CPROVER_ensures(g_l_pcftype.n == 1 && CALL_IS(g_l_pcftype, 0, pcf, 100 + type->type, 0, 0, type->title, NULL))
/* every registered label, under its value, in that section */
__CPROVER_ensures(RV != 0 || g_l_pcfval.n == NL(type))
__CPROVER_ensures(RV != 0 || NL(type) < 1 || !REALLY_FITS_INT(L0(type)->value) || CALL_IS(g_l_pcfval, 0, PCFTYPE_OF(pcf), L0(type)->value, 0, 0, L0(type)->label, NULL))
__CPROVER_ensures(RV != 0 || NL(type) < 2 || !REALLY_FITS_INT(L1(type)->value) || CALL_IS(g_l_pcfval, 1, PCFTYPE_OF(pcf), L1(type)->value, 0, 0, L1(type)->label, NULL))
__CPROVER_ensures(RV == 0 || g_err > OLD(g_err))
;
void h_create_type(void)
{
	struct pcf *pcf; struct mark_type *type;
	RESET_LOGS();
	WITNESS_ON(create_type);
	int r = create_type(pcf, type);
	if (r == 0 && w_nlabels == 0) REACH("type without labels");
	if (r == 0 && w_nlabels == 2 && w_v0 == 7 && w_v1 == -3 && w_prvtype == 199) REACH("type 99 with labels for 7 and -3");
	if (r != 0) REACH("refused by a lower layer");
}
