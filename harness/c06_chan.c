/* C06 -- channels: exact contracts of chan_set / chan_flush / chan_read on the real chan.c */
#include "prelude.h"
#include "value.h"
_Static_assert(sizeof(struct value) == 16, "struct value has no padding");
/* HOWTO pitfall 9: memcmp over struct value -> field equality (same relation on this ABI) */
#undef value_is_equal
#define value_is_equal(a, b) ((a)->type == (b)->type && (a)->i == (b)->i)
#include "chan.c"          /* the real /repo/src/emu/chan.c */

/* ---- spec readers (struct copy, never the direct union path) ---- */
static inline struct value spec_single(struct chan *c) { struct value v = c->data.value; return v; }
static inline int64_t spec_single_t(struct chan *c) { struct value v = c->data.value; return v.type; }
static inline int64_t spec_single_i(struct chan *c) { struct value v = c->data.value; return v.i; }
/* the value a reader sees (what chan_read returns), any channel type */
static inline int64_t spec_cur_t(struct chan *c)
{
	if (c->type == CHAN_SINGLE) return spec_single_t(c);
	if (c->data.stack.n > 0) { struct value v = c->data.stack.values[c->data.stack.n - 1]; return v.type; }
	return VALUE_NULL;
}
static inline int64_t spec_cur_i(struct chan *c)
{
	if (c->type == CHAN_SINGLE) return spec_single_i(c);
	if (c->data.stack.n > 0) { struct value v = c->data.stack.values[c->data.stack.n - 1]; return v.i; }
	return 0;
}
#define CHAN_WF(c) ((c)->type == CHAN_SINGLE || ((c)->type == CHAN_STACK && (c)->data.stack.n >= 0 && (c)->data.stack.n <= MAX_CHAN_STACK))

/* ---- the dirty callback: most general behaviour, observed through ghosts ---- */
unsigned g_cb_calls;      /* number of calls of the dirty callback */
struct chan *g_cb_chan;   /* arguments of the last call */
void *g_cb_arg;
int g_cb_ret;             /* result of the last call */
int w_cbret;              /* witness ghost: the same, for the native replay */
int g_cb_saw_dirty;       /* the channel was already marked dirty when called */
int64_t g_cb_saw_t, g_cb_saw_i; /* value visible to the callback */
static int
stub_dirty_cb(struct chan *chan, void *arg)
{
	g_cb_calls++;
	g_cb_chan = chan;
	g_cb_arg = arg;
	g_cb_saw_dirty = chan->is_dirty;
	g_cb_saw_t = spec_cur_t(chan);
	g_cb_saw_i = spec_cur_i(chan);
	g_cb_ret = nondet_int();
	w_cbret = g_cb_ret;   /* witness for the native replay */
	return g_cb_ret;
}
#define CB_FRAME g_cb_calls, g_cb_chan, g_cb_arg, g_cb_ret, g_cb_saw_dirty, g_cb_saw_t, g_cb_saw_i, w_cbret

/* witness ghosts */
int w_type, w_dirty, w_dw, w_adup, w_idup, w_hascb, w_n;
int64_t w_vt, w_vi, w_lt, w_li, w_ct, w_ci;
WITNESS(chan_set);
WITNESS(chan_flush);
WITNESS(chan_read);
#define BIND_CHAN(c) (w_type == (int)(c)->type && w_dirty == (c)->is_dirty && \
	w_dw == (c)->prop[CHAN_DIRTY_WRITE] && w_adup == (c)->prop[CHAN_ALLOW_DUP] && \
	w_idup == (c)->prop[CHAN_IGNORE_DUP] && w_hascb == ((c)->dirty_cb != NULL) && \
	w_lt == (c)->last_value.type && w_li == (c)->last_value.i)
#define BIND_CUR(c) (w_ct == spec_cur_t(c) && w_ci == spec_cur_i(c) && w_n == (c)->data.stack.n)

/* pre-state facts */
int g_pre_dirty, g_is_dup, g_refused_static, g_ignored, g_writes;
int64_t g_pre_t, g_pre_i, g_pre_lt, g_pre_li;
void *g_pre_arg;

/* ---------------- chan_set ---------------- */
/* refused before anything is written */
#define SET_REFUSED(c, v) ((c)->type != CHAN_SINGLE || \
	((c)->is_dirty && !(c)->prop[CHAN_DIRTY_WRITE]) || \
	(!(c)->prop[CHAN_ALLOW_DUP] && SET_DUP(c, v) && !(c)->prop[CHAN_IGNORE_DUP]))
#define SET_DUP(c, v) ((c)->last_value.type == (v).type && (c)->last_value.i == (v).i)
/* accepted without effect */
#define SET_IGNORED(c, v) (!SET_REFUSED(c, v) && !(c)->prop[CHAN_ALLOW_DUP] && SET_DUP(c, v) && (c)->prop[CHAN_IGNORE_DUP])

int c_chan_set(struct chan *chan, struct value value)
__CPROVER_requires(__CPROVER_is_fresh(chan, sizeof(*chan)))
__CPROVER_requires(chan->dirty_cb == NULL || chan->dirty_cb == stub_dirty_cb)
__CPROVER_requires(WBIND(chan_set, BIND_CHAN(chan) && w_ct == spec_single_t(chan) && w_ci == spec_single_i(chan) && w_vt == value.type && w_vi == value.i) && DIAG_PRE)
__CPROVER_requires(g_cb_calls == 0 && g_pre_arg == chan->dirty_arg)
__CPROVER_requires(g_pre_dirty == chan->is_dirty && g_pre_t == spec_single_t(chan) && g_pre_i == spec_single_i(chan))
__CPROVER_requires(g_refused_static == SET_REFUSED(chan, value) && g_ignored == SET_IGNORED(chan, value))
__CPROVER_requires(g_writes == (!SET_REFUSED(chan, value) && !SET_IGNORED(chan, value)) && g_is_dup == SET_DUP(chan, value))
__CPROVER_requires(g_pre_lt == chan->last_value.type && g_pre_li == chan->last_value.i)
__CPROVER_assigns(chan->is_dirty, chan->data.value, CB_FRAME, DIAG_FRAME)
__CPROVER_ensures(__CPROVER_return_value == 0 || __CPROVER_return_value == -1)
/* the dirty callback runs exactly once when the channel BECOMES dirty, never otherwise */
__CPROVER_ensures(g_cb_calls == ((g_writes && !g_pre_dirty && chan->dirty_cb != NULL) ? 1u : 0u))
__CPROVER_ensures(g_cb_calls == 0 || (g_cb_chan == chan && g_cb_arg == g_pre_arg &&
	g_cb_saw_dirty == 1 && g_cb_saw_t == value.type && g_cb_saw_i == value.i))
/* refused exactly when: wrong channel type, dirty without DIRTY_WRITE, forbidden duplicate, or the dirty callback failed */
__CPROVER_ensures((__CPROVER_return_value != 0) == (g_refused_static || (g_cb_calls == 1 && g_cb_ret != 0)))
__CPROVER_ensures(__CPROVER_return_value == 0 || g_err > __CPROVER_old(g_err))
/* effect of a write */
__CPROVER_ensures(!g_writes || (spec_single_t(chan) == value.type && spec_single_i(chan) == value.i &&
	chan->is_dirty != 0 && (g_pre_dirty != 0 || chan->is_dirty == 1)))
/* no write: nothing changes (refused or ignored duplicate) */
__CPROVER_ensures(g_writes || (spec_single_t(chan) == g_pre_t && spec_single_i(chan) == g_pre_i &&
	chan->is_dirty == g_pre_dirty))
/* the value of the previous propagation is never touched by a write */
__CPROVER_ensures(chan->last_value.type == g_pre_lt && chan->last_value.i == g_pre_li)
;

void h_chan_set(void)
{
	struct chan *chan;
	struct value value;
	chan_cb_t keep = stub_dirty_cb; /* address taken: candidate target of chan->dirty_cb */
	(void) keep;
	WITNESS_ON(chan_set);
	int r = chan_set(chan, value);
	if (r == 0 && g_writes && g_cb_calls == 1) REACH("set accepted, became dirty, callback ran");
	if (r == 0 && g_writes && g_pre_dirty) REACH("set accepted on a dirty DIRTY_WRITE channel");
	if (r == 0 && g_writes && !g_pre_dirty && !w_hascb) REACH("set accepted without callback");
	if (r == 0 && g_ignored) REACH("duplicate ignored");
	if (r != 0 && w_type != CHAN_SINGLE) REACH("refused: not a single channel");
	if (r != 0 && w_type == CHAN_SINGLE && w_dirty && !w_dw) REACH("refused: dirty");
	if (r != 0 && !g_refused_static) REACH("refused: callback failed");
	if (r != 0 && w_type == CHAN_SINGLE && !w_dirty && !w_adup && !w_idup && w_vt == w_lt && w_vi == w_li) REACH("refused: duplicate");
	if (r == 0 && w_adup && w_vt == w_lt && w_vi == w_li) REACH("duplicate accepted with ALLOW_DUP");
}

/* ---------------- chan_flush ---------------- */
int c_chan_flush(struct chan *chan)
__CPROVER_requires(__CPROVER_is_fresh(chan, sizeof(*chan)) && CHAN_WF(chan))
__CPROVER_requires(WBIND(chan_flush, BIND_CHAN(chan) && BIND_CUR(chan)) && DIAG_PRE)
__CPROVER_requires(g_pre_dirty == chan->is_dirty && g_pre_t == spec_cur_t(chan) && g_pre_i == spec_cur_i(chan))
__CPROVER_requires(g_pre_lt == chan->last_value.type && g_pre_li == chan->last_value.i)
__CPROVER_assigns(chan->is_dirty, chan->last_value, DIAG_FRAME)
__CPROVER_ensures((__CPROVER_return_value == 0) == (g_pre_dirty != 0))
__CPROVER_ensures(__CPROVER_return_value == 0 || __CPROVER_return_value == -1)
/* flushed: clean, and last_value is the value shown */
__CPROVER_ensures(__CPROVER_return_value != 0 || (chan->is_dirty == 0 &&
	chan->last_value.type == g_pre_t && chan->last_value.i == g_pre_i))
__CPROVER_ensures(__CPROVER_return_value == 0 || (chan->is_dirty == 0 &&
	chan->last_value.type == g_pre_lt && chan->last_value.i == g_pre_li && g_err > __CPROVER_old(g_err)))
/* the current value is not in the frame */
;

void h_chan_flush(void)
{
	struct chan *chan;
	WITNESS_ON(chan_flush);
	int r = chan_flush(chan);
	if (r == 0 && w_type == CHAN_SINGLE) REACH("single channel flushed");
	if (r == 0 && w_type == CHAN_STACK && w_ct != VALUE_NULL) REACH("non-empty stack channel flushed");
	if (r == 0 && w_type == CHAN_STACK && w_ct == VALUE_NULL) REACH("stack channel showing null flushed");
	if (r != 0) REACH("flush of a clean channel refused");
}

/* ---------------- chan_read ---------------- */
int c_chan_read(struct chan *chan, struct value *value)
__CPROVER_requires(__CPROVER_is_fresh(chan, sizeof(*chan)) && CHAN_WF(chan))
__CPROVER_requires(__CPROVER_is_fresh(value, sizeof(*value)))
__CPROVER_requires(WBIND(chan_read, BIND_CHAN(chan) && BIND_CUR(chan)))
__CPROVER_assigns(*value)
__CPROVER_ensures(__CPROVER_return_value == 0)
__CPROVER_ensures(value->type == spec_cur_t(chan) && value->i == spec_cur_i(chan))
/* an empty stack reads as null */
__CPROVER_ensures(!(chan->type == CHAN_STACK && chan->data.stack.n == 0) || (value->type == VALUE_NULL && value->i == 0))
;

void h_chan_read(void)
{
	struct chan *chan;
	struct value *value;
	WITNESS_ON(chan_read);
	int r = chan_read(chan, value);
	if (r == 0 && w_type == CHAN_SINGLE) REACH("single read");
	if (r == 0 && w_type == CHAN_STACK && w_ct == VALUE_INT64) REACH("stack read");
}
