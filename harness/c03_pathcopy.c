/* C03/C12 -- path_copy and path_append of the real src/emu/path.c: a path that does not fit in PATH_MAX is
 * REFUSED with a diagnostic (never silently truncated: a truncated stream path would load another file or
 * none), a path that fits is accepted; the destination, the room PATH_MAX, the format and the source
 * arguments handed to snprintf are pinned.  snprintf is a recording stub with an arbitrary result length. */
#include "prelude.h"
#undef snprintf
unsigned g_sn_calls; int g_sn_ret; char *g_sn_dst; size_t g_sn_n; const char *g_sn_a1, *g_sn_a2; int g_sn_kind;   /* 1 "%s", 2 "%s/%s" */
static int rec_snprintf(char *s, size_t n, const char *fmt, const char *a1, const char *a2)
{
	g_sn_calls++; g_sn_dst = s; g_sn_n = n; g_sn_a1 = a1; g_sn_a2 = a2;
	g_sn_kind = (fmt[0] == '%' && fmt[1] == 's' && fmt[2] == 0) ? 1 :
		(fmt[0] == '%' && fmt[1] == 's' && fmt[2] == '/' && fmt[3] == '%' && fmt[4] == 's' && fmt[5] == 0) ? 2 : 0;
	int r = nondet_int();
	__CPROVER_assume(r >= 0);
	return g_sn_ret = r;
}
#define RS_PICK(_1, _2, N, ...) N
#define snprintf(s, n, fmt, ...) rec_snprintf((s), (n), (fmt), RS_PICK(__VA_ARGS__, RS_TWO, RS_ONE)(__VA_ARGS__))
#define RS_ONE(a) (a), NULL
#define RS_TWO(a, b) (a), (b)
#include "path.c"

int c_path_copy(char dst[PATH_MAX], const char *src)
__CPROVER_requires(g_sn_calls == 0 && DIAG_PRE)
__CPROVER_assigns(g_sn_calls, g_sn_ret, g_sn_dst, g_sn_n, g_sn_a1, g_sn_a2, g_sn_kind, DIAG_FRAME)
__CPROVER_ensures(g_sn_calls == 1 && g_sn_kind == 1 && g_sn_dst == dst && g_sn_n == PATH_MAX && g_sn_a1 == src)
__CPROVER_ensures((__CPROVER_return_value == 0) == (g_sn_ret < PATH_MAX))
__CPROVER_ensures(__CPROVER_return_value == 0 || (__CPROVER_return_value == -1 && g_err == __CPROVER_old(g_err) + 1))
;
void h_path_copy(void)
{
	char *dst; const char *src;
	int r = path_copy(dst, src);
	if (r == 0) REACH("path fits");
	if (r != 0) REACH("path too long refused");
}
int c_path_append(char dst[PATH_MAX], const char *src, const char *extra)
__CPROVER_requires(g_sn_calls == 0 && DIAG_PRE)
__CPROVER_assigns(g_sn_calls, g_sn_ret, g_sn_dst, g_sn_n, g_sn_a1, g_sn_a2, g_sn_kind, DIAG_FRAME)
__CPROVER_ensures(g_sn_calls == 1 && g_sn_kind == 2 && g_sn_dst == dst && g_sn_n == PATH_MAX && g_sn_a1 == src && g_sn_a2 == extra)
__CPROVER_ensures((__CPROVER_return_value == 0) == (g_sn_ret < PATH_MAX))
__CPROVER_ensures(__CPROVER_return_value == 0 || (__CPROVER_return_value == -1 && g_err == __CPROVER_old(g_err) + 1))
;
void h_path_append(void)
{
	char *dst; const char *src, *extra;
	int r = path_append(dst, src, extra);
	if (r == 0) REACH("joined path fits");
	if (r != 0) REACH("joined path too long refused");
}
