/* G4 (C14, C12) -- the model table of the real src/emu/model.c:
 * model_init, model_register (DFCC contracts) and the three hook dispatchers model_create,
 * model_connect, model_finish (DFCC contract + loop contract over the 256 slots: unbounded).
 *
 * C14: "A model is enabled in emulation exactly when some stream requires it": model_probe decides
 * enabled[] (plan C14 group model_probe); the dispatchers must then call the hook of EXACTLY the
 * enabled models, once, in index order, and a hook's failure must reach the caller (C12: a failed
 * stage => emu_init/emu_connect/emu_finish fail => never "finished ok"). */
#include "prelude.h"

/* calloc may fail: the outcome is recorded (libc stub, most general behaviour) */
int g_calloc_null;                       /* the last calloc returned NULL */
unsigned g_calloc_n; size_t g_calloc_size;
static inline void *g4_calloc(size_t n, size_t size)
{
	g_calloc_n++;
	g_calloc_size = n * size;
	void *p = nondet_bool() ? NULL : calloc(n, size);
	g_calloc_null = (p == NULL);
	return p;
}
#include "model_evspec.h"
#include "model.h"
/* model_evspec.c is another unit (C18): any result, call recorded */
unsigned g_evi_n; void *g_evi_evspec, *g_evi_spec; int g_evi_ret;
long g_evi_seen_nevents;                 /* evspec->nevents as the callee received it (calloc: 0) */
int model_evspec_init(struct model_evspec *evspec, struct model_spec *spec)
{
	g_evi_n++; g_evi_evspec = evspec; g_evi_spec = spec;
	g_evi_seen_nevents = evspec->nevents;
	return g_evi_ret = nondet_int();
}

#define calloc(n, size) g4_calloc((n), (size))
#include "model.c"                       /* real /repo/src/emu/model.c */
#undef calloc

int g_k;                                 /* observed slot: arbitrary */

/* =====================================================================================
 * model_init: nothing registered, nothing enabled
 * ===================================================================================== */
void c_model_init(struct model *model)
__CPROVER_requires(__CPROVER_is_fresh(model, sizeof(*model)))
__CPROVER_requires(g_k >= 0 && g_k < MAX_MODELS)
__CPROVER_assigns(__CPROVER_object_whole(model))
__CPROVER_ensures(model->registered[g_k] == 0 && model->enabled[g_k] == 0 && model->spec[g_k] == NULL)
;
void h_model_init(void)
{
	struct model *model;
	model_init(model);
	if (g_k == 0) REACH("first slot");
	if (g_k == MAX_MODELS - 1) REACH("last slot");
}

/* =====================================================================================
 * model_register: accepted exactly when the spec is complete (name, version, event list, no
 * event table yet), its model byte is not taken, and the event table could be built; then the
 * spec is stored at index spec->model and marked registered.  A refused registration changes
 * neither the table nor (before the event table is allocated) the spec.
 * ===================================================================================== */
int w_model, w_was_reg, w_has_name, w_has_version, w_has_evlist, w_has_evspec;
int g_was_reg, g_was_ena; struct model_spec *g_was_spec;
#define REG_COMPLETE(spec) ((spec)->name != NULL && (spec)->version != NULL && (spec)->evlist != NULL)
int g_complete, g_had_evspec;

struct model g_model;                    /* harness-owned, arbitrary content (typed object: cheaper than is_fresh bytes) */
int c_model_register(struct model *model, struct model_spec *spec)
__CPROVER_requires(model == &g_model)
__CPROVER_requires(__CPROVER_is_fresh(spec, sizeof(*spec)))
/* the model byte is a character constant of the model's setup.c */
__CPROVER_requires(spec->model >= 0 && spec->model < MAX_MODELS)
__CPROVER_requires(DIAG_PRE && g_evi_n == 0 && g_calloc_n == 0 && g_calloc_null == 0 && g_k >= 0 && g_k < MAX_MODELS)
/* pre-state facts (enforce-only contract) */
__CPROVER_requires(g_was_reg == model->registered[spec->model] && g_was_ena == model->enabled[g_k] && g_was_spec == model->spec[g_k])
__CPROVER_requires(g_complete == REG_COMPLETE(spec) && g_had_evspec == (spec->evspec != NULL))
__CPROVER_requires(w_model == spec->model && w_was_reg == (g_was_reg != 0) && w_has_name == (spec->name != NULL) &&
	w_has_version == (spec->version != NULL) && w_has_evlist == (spec->evlist != NULL) && w_has_evspec == g_had_evspec)
__CPROVER_assigns(model->spec[spec->model], model->registered[spec->model], spec->evspec, DIAG_FRAME,
	g_calloc_null, g_calloc_n, g_calloc_size, g_evi_n, g_evi_evspec, g_evi_spec, g_evi_ret, g_evi_seen_nevents)
__CPROVER_ensures(__CPROVER_return_value == 0 || __CPROVER_return_value == -1)
/* accepted exactly when ... */
__CPROVER_ensures((__CPROVER_return_value == 0) ==
	(g_complete && !g_was_reg && !g_had_evspec && g_calloc_n == 1 && !g_calloc_null && g_evi_n == 1 && g_evi_ret == 0))
/* the event table is allocated and initialised only for a complete spec whose byte is free; one
 * zeroed struct model_evspec, initialised from this spec */
__CPROVER_ensures(g_calloc_n == ((g_complete && !g_was_reg && !g_had_evspec) ? 1u : 0u))
__CPROVER_ensures(g_calloc_n == 0 || g_calloc_size == sizeof(struct model_evspec))
__CPROVER_ensures(g_evi_n == ((g_calloc_n == 1 && !g_calloc_null) ? 1u : 0u))
__CPROVER_ensures(g_evi_n == 0 || (g_evi_evspec == spec->evspec && spec->evspec != NULL && g_evi_spec == spec && g_evi_seen_nevents == 0))
/* effect of an accepted registration */
__CPROVER_ensures(__CPROVER_return_value != 0 || (model->spec[spec->model] == spec && model->registered[spec->model] == 1))
/* a refused one leaves the table as it was (the observed slot is arbitrary) */
__CPROVER_ensures(__CPROVER_return_value == 0 || (model->registered[spec->model] == g_was_reg &&
	model->spec[g_k] == g_was_spec && g_err > __CPROVER_old(g_err)))
__CPROVER_ensures(g_k == spec->model || model->spec[g_k] == g_was_spec)
__CPROVER_ensures(model->enabled[g_k] == g_was_ena)
__CPROVER_ensures(g_calloc_n != 0 || (spec->evspec != NULL) == (g_had_evspec != 0))
;
void h_model_register(void)
{
	struct model_spec *spec;
	int r = model_register(&g_model, spec);
	/* (each REACH point costs one solver call of ~5 s here: kept to the outcomes the property names) */
	if (r == 0 && w_model == 'O') REACH("model O registered");
	if (r == -1 && w_was_reg && w_has_name) REACH("double registration refused");
	if (r == -1 && !w_was_reg && !g_complete) REACH("incomplete spec refused");
	if (r == -1 && g_calloc_n == 1 && g_calloc_null) REACH("out of memory");
	if (r == -1 && g_evi_n == 1) REACH("event table refused (model_evspec_init)");
}

/* =====================================================================================
 * model_create / model_connect / model_finish  (-DG4_HOOK=create|connect|finish, -DG4_FN=...,
 * -DG4_STOPS=1 for the two that stop at the first failing hook).  Unbounded: DFCC contract plus a
 * loop contract for the loop over the MAX_MODELS slots (loops/g4_model.json).
 *
 * The model table is owned by the harness and built for ALL 256 slots the way model_init +
 * model_register + model_probe leave it: enabled => registered, spec[i] != NULL exactly for
 * registered slots.  Two observed slots g_ka < g_kb (arbitrary) have their own spec and hook
 * function; every other registered slot shares one spec with the hook and one without.  Since the
 * observed slots are arbitrary, what is shown for them holds for every slot / pair of slots:
 *   - the hook of a slot is called only if the slot is ENABLED, at most once, with this emulator;
 *   - hooks run in index order (when kb's hook runs, ka's has run iff it had to);
 *   - G4_STOPS: -1 exactly when a hook answered != 0 and no hook is called after that; on success
 *     every enabled slot that has the hook got exactly one call;
 *   - model_finish: every enabled slot's hook gets exactly one call whatever the others answer,
 *     and the result is -1 exactly when some hook answered != 0;
 *   - the model table is not written (assigns clause).
 * ===================================================================================== */
#ifdef G4_HOOK
struct emu *g_emu;
int g_ka, g_kb;
unsigned g_has_a, g_has_b;               /* the observed slot is enabled and its spec has the hook */
unsigned g_n_a, g_n_b, g_b_saw_a;
int g_failed, g_after_fail, g_bad_arg;
#define G4_HOOK_ENTRY \
	if (g_failed) g_after_fail = 1; \
	if (emu != g_emu) g_bad_arg = 1;
#define G4_HOOK_EXIT \
	int r = nondet_int(); \
	if (r != 0) g_failed = 1; \
	return r;
static int hook_a(struct emu *emu) { G4_HOOK_ENTRY g_n_a++; G4_HOOK_EXIT }
static int hook_b(struct emu *emu) { G4_HOOK_ENTRY g_n_b++; g_b_saw_a = g_n_a; G4_HOOK_EXIT }
static int hook_o(struct emu *emu) { G4_HOOK_ENTRY G4_HOOK_EXIT }
#define HOOKS_FRAME g_n_a, g_n_b, g_b_saw_a, g_failed, g_after_fail, g_bad_arg

int c_model_hooks(struct model *model, struct emu *emu)
__CPROVER_requires(DIAG_PRE && g_n_a == 0 && g_n_b == 0 && g_b_saw_a == 0 && g_failed == 0 && g_after_fail == 0 && g_bad_arg == 0)
__CPROVER_requires(0 <= g_ka && g_ka < g_kb && g_kb < MAX_MODELS && g_has_a <= 1 && g_has_b <= 1 && emu == g_emu)
__CPROVER_assigns(DIAG_FRAME, HOOKS_FRAME)
__CPROVER_ensures(__CPROVER_return_value == 0 || __CPROVER_return_value == -1)
/* fails exactly when a hook it called answered != 0; a failure comes with a diagnostic */
__CPROVER_ensures((__CPROVER_return_value == -1) == (g_failed != 0))
__CPROVER_ensures(__CPROVER_return_value == 0 || g_err > __CPROVER_old(g_err))
__CPROVER_ensures(!g_bad_arg)
/* a hook is called at most once, and only for an enabled model */
__CPROVER_ensures(g_n_a <= g_has_a && g_n_b <= g_has_b)
/* index order */
__CPROVER_ensures(g_n_b == 0 || g_b_saw_a == g_has_a)
#if G4_STOPS
__CPROVER_ensures(!g_after_fail)
__CPROVER_ensures(__CPROVER_return_value != 0 || (g_n_a == g_has_a && g_n_b == g_has_b))
#else
__CPROVER_ensures(g_n_a == g_has_a && g_n_b == g_has_b)
#endif
;

void h_model_hooks(void)
{
	static struct model model;
	static struct model_spec spec_a, spec_b, spec_with, spec_without;
	static struct emu emu;
	emu_hook_t *pa = hook_a, *pb = hook_b, *po = hook_o;   /* candidate targets */

	int ka = nondet_int(), kb = nondet_int();
	__CPROVER_assume(0 <= ka && ka < kb && kb < MAX_MODELS);
	g_ka = ka; g_kb = kb;
	g_emu = &emu;
	g_n_a = g_n_b = g_b_saw_a = 0;
	g_failed = g_after_fail = g_bad_arg = 0;
	spec_a.G4_HOOK = nondet_bool() ? NULL : pa;
	spec_b.G4_HOOK = nondet_bool() ? NULL : pb;
	spec_with.G4_HOOK = po;
	spec_without.G4_HOOK = NULL;

	for (int i = 0; i < MAX_MODELS; i++) {
		model.registered[i] = nondet_bool();
		/* model_probe enables registered models only */
		model.enabled[i] = model.registered[i] ? nondet_bool() : 0;
		/* model_init, model_register: spec stored exactly for registered slots */
		model.spec[i] = !model.registered[i] ? NULL : i == ka ? &spec_a : i == kb ? &spec_b :
			nondet_bool() ? &spec_with : &spec_without;
	}
	int ena_a = model.enabled[ka] != 0, ena_b = model.enabled[kb] != 0;
	int reg_a = model.registered[ka];
	g_has_a = ena_a && spec_a.G4_HOOK != NULL;
	g_has_b = ena_b && spec_b.G4_HOOK != NULL;

	int r = G4_FN(&model, &emu);

	if (r == 0 && g_n_a == 1 && g_n_b == 1) REACH("both observed hooks called");
	if (r == 0 && !ena_a && reg_a && spec_a.G4_HOOK != NULL && g_n_b == 1) REACH("registered but not enabled model skipped");
	if (r == 0 && ena_a && g_n_a == 0) REACH("enabled model without the hook skipped");
	if (r == -1 && g_n_a == 1 && g_n_b == 1) REACH("failure with both observed hooks called");
#if G4_STOPS
	if (r == -1 && g_n_a == 1 && g_has_b && g_n_b == 0) REACH("failure before the second observed hook: it is not called");
#endif
	if (r == 0 && kb == MAX_MODELS - 1 && g_n_b == 1) REACH("last slot called");
	if (r == 0 && ka == 0 && g_n_a == 1) REACH("first slot called");
}
#endif
