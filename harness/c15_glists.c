/* C15 -- global resource lists of the real system.c: init_global_lists and
 * init_global_indices (the virtual CPU of each loom comes after its physical
 * CPUs; global indices are consecutive in list order).
 * Plain harness (no contract instrumentation): the hierarchy is built object by
 * object, the two real functions run on it, the postconditions are asserted.
 * Bound: <= 2 looms, each with <= 2 physical CPUs and <= 1 process; no threads
 * (thread.c and cpu.c cannot share a translation unit). */
#include "prelude.h"
#include "cpu.c"                  /* real cpu_set_gindex */
#include "loom.c"                 /* real loom_set_gindex */
#include "proc.c"                 /* real proc_set_gindex */
#include "system.c"               /* the real /repo/src/emu/system.c */

/* thread.c is outside this TU; no thread exists in this bound */
void thread_set_gindex(struct thread *th, int64_t gindex)
{
	(void) th; (void) gindex;
	VASSERT(0, "thread_set_gindex is not reached: no threads in this bound");
}

int w_nl, w_nc[2], w_np[2];

static struct loom *c15_build_loom(int k)
{
	struct loom *l = malloc(sizeof(struct loom));
	__CPROVER_assume(l != NULL);
	l->vcpu.is_virtual = 1; l->vcpu.phyid = -1; l->vcpu.index = -1;
	l->next = NULL; l->prev = NULL;
	w_nc[k] = nondet_int(); w_np[k] = nondet_int();
	__CPROVER_assume(0 <= w_nc[k] && w_nc[k] <= 2 && 0 <= w_np[k] && w_np[k] <= 1);
	l->cpus = NULL;
	if (w_nc[k] >= 1) {
		struct cpu *c0 = malloc(sizeof(struct cpu));
		__CPROVER_assume(c0 != NULL);
		c0->is_virtual = 0; c0->hh.next = NULL;
		l->cpus = c0;
		if (w_nc[k] == 2) {
			struct cpu *c1 = malloc(sizeof(struct cpu));
			__CPROVER_assume(c1 != NULL);
			c1->is_virtual = 0; c1->hh.next = NULL;
			c0->hh.next = c1;
		}
	}
	l->procs = NULL;
	if (w_np[k] == 1) {
		struct proc *p = malloc(sizeof(struct proc));
		__CPROVER_assume(p != NULL);
		p->hh.next = NULL; p->threads = NULL;
		l->procs = p;
	}
	return l;
}

void h_global_lists(void)
{
	struct system *sys = malloc(sizeof(struct system));
	__CPROVER_assume(sys != NULL);
	/* system_init: memset 0, then the looms are appended by create_system */
	sys->procs = NULL; sys->threads = NULL; sys->cpus = NULL;
	w_nl = nondet_int();
	__CPROVER_assume(1 <= w_nl && w_nl <= 2);
	struct loom *l0 = c15_build_loom(0);
	struct loom *l1 = NULL;
	if (w_nl == 2) {
		l1 = c15_build_loom(1);
		l0->next = l1; l1->prev = l0;
	} else {
		w_nc[1] = 0; w_np[1] = 0;
	}
	sys->looms = l0;
	/* the CPUs in the order the statement prescribes: per loom, physical CPUs in table order, then the virtual CPU */
	struct cpu *exp[6]; int n = 0;
	if (w_nc[0] >= 1) exp[n++] = l0->cpus;
	if (w_nc[0] == 2) exp[n++] = l0->cpus->hh.next;
	exp[n++] = &l0->vcpu;
	if (w_nl == 2) {
		if (w_nc[1] >= 1) exp[n++] = l1->cpus;
		if (w_nc[1] == 2) exp[n++] = l1->cpus->hh.next;
		exp[n++] = &l1->vcpu;
	}

	init_global_lists(sys);
	init_global_indices(sys);

	/* the global CPU list is exactly that sequence, and gindex is the position */
	struct cpu *c = sys->cpus;
	for (int i = 0; i < 6; i++) {
		if (i < n) {
			VASSERT(c == exp[i], "global CPU list: per loom the physical CPUs in table order, then the virtual CPU");
			VASSERT(c->gindex == i, "CPU gindex is its position in the global list (consecutive from 0)");
			c = c->next;
		}
	}
	VASSERT(c == NULL, "global CPU list ends after the last loom's virtual CPU");
	VASSERT(sys->ncpus == (size_t) n && sys->nphycpus == (size_t) (w_nc[0] + w_nc[1]), "CPU counters: all CPUs, physical CPUs");
	VASSERT(l0->vcpu.gindex == w_nc[0], "the virtual CPU of the first loom comes right after its physical CPUs");
	VASSERT(w_nl < 2 || l1->vcpu.gindex == w_nc[0] + 1 + w_nc[1], "the virtual CPU of the second loom comes after all its physical CPUs");
	/* looms and processes: consecutive indices in list order */
	VASSERT(l0->gindex == 0 && (w_nl < 2 || l1->gindex == 1), "loom gindex consecutive in list order");
	VASSERT(sys->nprocs == (size_t) (w_np[0] + w_np[1]), "process counter");
	VASSERT(w_np[0] == 0 || (sys->procs == l0->procs && l0->procs->gindex == 0), "first loom's process first");
	VASSERT(w_nl < 2 || w_np[1] == 0 || l1->procs->gindex == w_np[0], "second loom's process after the first loom's");
	VASSERT(sys->nthreads == 0 && sys->threads == NULL, "no threads in this bound");

	if (w_nl == 2 && w_nc[0] == 2 && w_nc[1] == 2 && w_np[0] == 1 && w_np[1] == 1) REACH("two looms, two CPUs and one process each");
	if (w_nl == 2 && w_nc[0] == 0 && w_nc[1] == 1) REACH("first loom with only its virtual CPU");
	if (w_nl == 1 && w_nc[0] == 1) REACH("one loom, one CPU");
}
