/* G3 (gap closure for C20) -- sort_set_input / sort_get_output of the real src/emu/sort.c:
 *   sort_set_input(sort, k, chan)  input k gets the channel exactly when it has none yet; it then remembers (k, chan,
 *                                  sort), and the sort callback sort_cb_input is registered on chan in the sort's bay as
 *                                  an enabled DIRTY callback with THAT input as its argument (so a change of chan
 *                                  updates values[k] and no other cell: c20_cb.c); an input that already has a
 *                                  channel is refused and left alone (a CPU is never silently re-wired)
 *   sort_get_output(sort, k)       row k of the sorted output is the k-th output channel
 * Loop-free: all row counts up to 2^20 (tables of symbolic size; only the address of an output row is formed), full-width arguments.  bay.c is outside the unit:
 * bay_add_cb is a logging stub that may fail. */
#include "prelude.h"
#include "value.h"
_Static_assert(sizeof(struct value) == 16, "struct value has no padding");
#undef value_is_equal
#define value_is_equal(a, b) ((a)->type == (b)->type && (a)->i == (b)->i)
#include "chan.h"
#include "bay.h"

#define RV __CPROVER_return_value
#define OLD(e) __CPROVER_old(e)
struct g3_cb { unsigned n; struct bay *bay; int type; struct chan *chan; void *func; void *arg; int enabled; int failed; } g_cb;
struct bay_cb *bay_add_cb(struct bay *bay, enum bay_cb_type type, struct chan *chan, bay_cb_func_t func, void *arg, int enabled)
{
	g_cb.n++; g_cb.bay = bay; g_cb.type = (int) type; g_cb.chan = chan; g_cb.func = (void *) func; g_cb.arg = arg; g_cb.enabled = enabled;
	if (nondet_bool()) { g_cb.failed = 1; return NULL; }
	static struct bay_cb cb;
	g_cb.failed = 0;
	return &cb;
}
int chan_set(struct chan *chan, struct value value) { (void) chan; (void) value; return nondet_int(); }   /* sort_cb_input: not reached */

#include "sort.c"          /* the real /repo/src/emu/sort.c */

#define G3_MAXROWS (1L << 20)
struct chan *g_old_chan; long long w_index, w_n; int w_had;
WITNESS(sort_set_input);
int c_sort_set_input(struct sort *sort, int64_t index, struct chan *chan)
__CPROVER_requires(__CPROVER_is_fresh(sort, sizeof(*sort)) && sort->n >= 1 && sort->n <= G3_MAXROWS)
__CPROVER_requires(__CPROVER_is_fresh(sort->inputs, (size_t) sort->n * sizeof(struct sort_input)))
/* callers pass a row of the sort (model_*_breakdown_connect: k < number of physical CPUs == sort->n, group g3_breakdown_connect_*) */
__CPROVER_requires(index >= 0 && index < sort->n)
__CPROVER_requires(g_old_chan == sort->inputs[index].chan && g_cb.n == 0 && DIAG_PRE)
__CPROVER_requires(WBIND(sort_set_input, w_index == index && w_n == sort->n && w_had == (g_old_chan != NULL)))
__CPROVER_assigns(sort->inputs[index], g_cb, DIAG_FRAME)
__CPROVER_ensures(RV == 0 || RV == -1)
/* accepted exactly when the input was free and the callback could be registered */
__CPROVER_ensures((RV == 0) == (g_old_chan == NULL && g_cb.n == 1 && !g_cb.failed))
/* an input that already has a channel is left alone, nothing is registered */
__CPROVER_ensures(g_old_chan == NULL || (sort->inputs[index].chan == g_old_chan && g_cb.n == 0 && g_err > OLD(g_err)))
/* accepted: input k = (k, chan, sort); the sort callback watches chan with THIS input as argument */
__CPROVER_ensures(RV != 0 || (sort->inputs[index].chan == chan && sort->inputs[index].index == index && sort->inputs[index].sort == sort))
__CPROVER_ensures(RV != 0 || (g_cb.bay == sort->bay && g_cb.type == BAY_CB_DIRTY && g_cb.chan == chan && g_cb.func == (void *) sort_cb_input &&
	g_cb.arg == (void *) &sort->inputs[index] && g_cb.enabled == 1))
__CPROVER_ensures(RV == 0 || g_err > OLD(g_err))
;
void h_sort_set_input(void)
{
	struct sort *sort; int64_t index; struct chan *chan;
	bay_cb_func_t keep = sort_cb_input; (void) keep;
	WITNESS_ON(sort_set_input);
	int r = sort_set_input(sort, index, chan);
	if (r == 0 && w_index == 0 && w_n == 1) REACH("single row wired");
	if (r == 0 && w_index == 5 && w_n == 6) REACH("last of six rows wired");
	if (r != 0 && w_had) REACH("input already wired: refused");
	if (r != 0 && !w_had) REACH("callback registration refused");
}

struct chan *c_sort_get_output(struct sort *sort, int64_t index)
__CPROVER_requires(__CPROVER_is_fresh(sort, sizeof(*sort)) && sort->n >= 1 && sort->n <= G3_MAXROWS)
__CPROVER_requires(__CPROVER_is_fresh(sort->outputs, (size_t) sort->n * sizeof(struct chan)))
__CPROVER_requires(index >= 0 && index < sort->n)
__CPROVER_assigns()
__CPROVER_ensures(RV == &sort->outputs[index])
;
void h_sort_get_output(void)
{
	struct sort *sort; int64_t index;
	struct chan *out = sort_get_output(sort, index);
	if (index == 0) REACH("row 0");
	if (index == 1000) REACH("row 1000");
}
