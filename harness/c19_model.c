/* C19 -- model.c: check_payload, the guard in front of the event printer (ovnidump,
 * ovniemu -d).  For an arbitrary event definition with at most MAX_ARGS arguments
 * (offsets, sizes and types arbitrary) and an arbitrary event satisfying EMU_EV_WF:
 *   - no read outside payload[0..payload_size): memchr is rebound to a wrapper that checks
 *     its range byte-exactly against payload_size;
 *   - check_payload == 0  =>  the payload holds the declared payload size, every declared
 *     string starts inside the payload and has a NUL before the end of the payload
 *     (single-cell observer: g_k is an arbitrary argument index).
 * These are exactly the preconditions of print_arg (c19_evspec.c). */
#include "prelude.h"
#include "emu_ev.h"

const uint8_t *g_payload; unsigned long g_psize;   /* bound in requires */
#define IN_PAYLOAD(p, n) (__CPROVER_same_object((p), g_payload) && \
	((const uint8_t *) (p) >= g_payload && (n) <= g_psize && \
	 (unsigned long) ((const uint8_t *) (p) - g_payload) <= g_psize - (n)))
/* observer: what memchr was asked about the string at payload offset g_obs_off */
unsigned long g_obs_off; int g_obs_asked, g_obs_hit; unsigned long g_obs_n;
unsigned g_memchr_calls;
/* TRUSTED libc model: returns NULL or a position inside the range that holds c */
static inline void *c19_memchr(const void *s, int c, size_t n)
{
	__CPROVER_assert(g_payload != NULL && IN_PAYLOAD(s, n), "memchr range inside payload[0..payload_size)");
	__CPROVER_assert(__CPROVER_r_ok(s, n), "memchr range readable");
	g_memchr_calls++;
	int hit = 0; void *r = NULL;
	if (n > 0 && nondet_bool()) {
		size_t k = nondet_size_t();
		__CPROVER_assume(k < n && ((const unsigned char *) s)[k] == (unsigned char) c);
		hit = 1; r = (void *) ((const unsigned char *) s + k);
	}
	if ((unsigned long) ((const uint8_t *) s - g_payload) == g_obs_off) { g_obs_asked = 1; g_obs_hit = hit; g_obs_n = n; }
	return r;
}
#define memchr(s, c, n) c19_memchr((s), (c), (n))
#include "model.c"         /* the real /repo/src/emu/model.c */
#undef memchr
#include "c19_evwf.h"
#include "c19_specwf.h"
#define RET __CPROVER_return_value

int g_k;
unsigned w_nargs; unsigned long w_spec_psize, w_ev_psize, w_k_off; unsigned w_is_jumbo; int w_k_type;
WITNESS(check_payload);

int c_check_payload(struct ev_spec *es, struct emu_ev *ev)
__CPROVER_requires(__CPROVER_is_fresh(es, sizeof(*es)) && EMU_EV_WF(ev))
__CPROVER_requires(es->nargs >= 0 && es->nargs <= MAX_ARGS && DIAG_PRE && g_memchr_calls == 0 && g_obs_asked == 0)
__CPROVER_requires(g_payload == (const uint8_t *) ev->payload && g_psize == ev->payload_size)
__CPROVER_requires(g_k >= 0 && g_k < MAX_ARGS && g_obs_off == es->args[g_k].offset)
__CPROVER_requires(WBIND(check_payload, w_nargs == (unsigned) es->nargs && w_spec_psize == es->payload_size && w_ev_psize == ev->payload_size &&
	w_k_off == es->args[g_k].offset && w_k_type == (int) es->args[g_k].type && w_is_jumbo == (unsigned) ev->is_jumbo))
__CPROVER_assigns(DIAG_FRAME, g_memchr_calls, g_obs_asked, g_obs_hit, g_obs_n)
__CPROVER_ensures(RET == 0 || RET == -1)
__CPROVER_ensures(RET != 0 || ev->payload_size >= es->payload_size)
__CPROVER_ensures(RET != 0 || STRINGS_INSIDE(es, ev->payload_size))
/* the string argument g_k was searched for its NUL in exactly [offset, payload_size) and has one */
__CPROVER_ensures(RET != 0 || g_k >= es->nargs || es->args[g_k].type != STR ||
	(g_obs_asked && g_obs_hit && g_obs_n == ev->payload_size - es->args[g_k].offset))
__CPROVER_ensures(RET == 0 || g_err > __CPROVER_old(g_err))
;
void h_check_payload(void)
{
	struct ev_spec *es; struct emu_ev *ev;
	WITNESS_ON(check_payload);
	int r = check_payload(es, ev);
	if (r == 0 && w_nargs == MAX_ARGS) REACH("16 arguments accepted");
	if (r == 0 && w_k_type == STR && g_k < (int) w_nargs) REACH("string argument accepted");
	if (r == 0 && w_is_jumbo && w_ev_psize > 1000000) REACH("large jumbo accepted");
	if (r == 0 && w_ev_psize == 0) REACH("event without payload accepted for a definition without arguments");
	if (r != 0 && w_ev_psize < w_spec_psize) REACH("short payload refused");
	if (r != 0 && w_ev_psize >= w_spec_psize && w_k_type == STR && w_k_off >= w_ev_psize) REACH("string starting outside the payload refused");
	if (r != 0 && g_obs_asked && !g_obs_hit) REACH("unterminated string refused");
}
