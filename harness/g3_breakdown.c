/* G3 (gap closure for C20) -- the breakdown trace set-up of the real src/emu/nosv/breakdown.c and
 * src/emu/nanos6/breakdown.c (-DG3_NANOS6 selects the Nanos6 file; both define the same static names):
 *
 *   model_*_breakdown_create   rows of the breakdown trace == number of PHYSICAL CPUs of the system (counted here
 *                              from the CPU list: the CPUs that are not virtual), the sort module is created with
 *                              exactly that many rows in the emulator's bay, every physical CPU (and no virtual one)
 *                              gets its two single-value channels tr / tri, registered in the bay; nOS-V: refused
 *                              unless every thread's metadata says nosv.can_breakdown
 *   model_*_breakdown_connect  for the k-th physical CPU in list order: its muxes are connected (mux1 drives ITS tri),
 *                              sort input k is ITS tri channel, sort output k is registered as Paraver row k of the
 *                              breakdown trace under the breakdown type (zero values are written, duplicates skipped);
 *                              exactly one input per physical CPU, virtual CPUs are never connected
 *   model_*_breakdown_finish   the breakdown PCF gets the breakdown type with every subsystem label and every idle
 *                              label of the model's tables and the task types of EVERY process of the system (global
 *                              list); every row of the trace gets a row label
 *   create_cpu, check_thread_metadata (nosv), connect_cpu (also proved alone in c20_breakdown.c) run inline.
 *
 * Bounded: <= 4 CPUs in the list of which one per loom is virtual, <= 2 looms (so <= 3 physical CPUs), <= 2 threads,
 * <= 2 processes, <= 2 labels per table.  Assume/assert harness on the real code.  recorder.c, sort.c, mux.c, chan.c,
 * bay.c, pv/{pvt,prv,pcf,prf}.c, task.c, parson are other units: logging stubs, each may fail. */
#include "prelude.h"
#include "value.h"
#include "chan.h"
#include "bay.h"
#include "mux.h"
#include "sort.h"
#include "emu.h"
#include "recorder.h"
#include "parson.h"
#include "pv/pcf.h"
#include "pv/prf.h"
#include "pv/prv.h"
#include "pv/pvt.h"
#include "task.h"
#include "thread.h"
#include "extend.c"          /* the real extend_get / extend_set */

#define NLOG 8
struct g3_call { const void *a, *b, *c; long x, y, z; };
struct g3_log { int n; struct g3_call c[NLOG]; };
struct g3_log L_addpvt, L_sortinit, L_chaninit, L_bayreg, L_muxinit, L_muxin, L_muxdef, L_setin, L_getout, L_prvreg,
	L_addtype, L_addval, L_tasktypes, L_prfadd, L_getprv, L_getpcf, L_getprf, L_dotget;
unsigned g_lowfail;
static void g3_log(struct g3_log *l, const void *a, const void *b, const void *c, long x, long y, long z)
{
	if (l->n < NLOG) { struct g3_call e; e.a = a; e.b = b; e.c = c; e.x = x; e.y = y; e.z = z; l->c[l->n] = e; }
	l->n++;
}
static int may_fail(void) { if (nondet_bool()) { g_lowfail++; verif_err(); return -1; } return 0; }
#define IS(l, k, a_, b_, c_, x_, y_, z_) ((l).c[k].a == (const void *) (a_) && (l).c[k].b == (const void *) (b_) && (l).c[k].c == (const void *) (c_) && \
	(l).c[k].x == (long) (x_) && (l).c[k].y == (long) (y_) && (l).c[k].z == (long) (z_))

#ifdef G3_NANOS6
#define BD_NAME(s) ((s)[0] == 'n' && (s)[1] == 'a' && (s)[2] == 'n' && (s)[3] == 'o' && (s)[4] == 's' && (s)[5] == '6' && (s)[6] == '-' && \
	(s)[7] == 'b' && (s)[8] == 'r' && (s)[9] == 'e' && (s)[10] == 'a' && (s)[11] == 'k' && (s)[12] == 'd' && (s)[13] == 'o' && (s)[14] == 'w' && (s)[15] == 'n' && (s)[16] == '\0')
#else
#define BD_NAME(s) ((s)[0] == 'n' && (s)[1] == 'o' && (s)[2] == 's' && (s)[3] == 'v' && (s)[4] == '-' && \
	(s)[5] == 'b' && (s)[6] == 'r' && (s)[7] == 'e' && (s)[8] == 'a' && (s)[9] == 'k' && (s)[10] == 'd' && (s)[11] == 'o' && (s)[12] == 'w' && (s)[13] == 'n' && (s)[14] == '\0')
#endif

/* ---- the objects behind the opaque handles ---- */
static char o_pvt[8], o_prv[8], o_pcf[8], o_prf[8], o_pcftype[8], o_out[4][8], o_val[2][8];
#define PVT ((struct pvt *) o_pvt)
#define PRVH ((struct prv *) o_prv)
#define PCFH ((struct pcf *) o_pcf)
#define PRFH ((struct prf *) o_prf)
#define PCFTYPE ((struct pcf_type *) o_pcftype)
#define OUT_OF(k) ((struct chan *) o_out[(k)])

/* ---- recorder / pvt ---- */
struct pvt *recorder_add_pvt(struct recorder *rec, const char *name, long nrows)
{ g3_log(&L_addpvt, rec, NULL, NULL, nrows, BD_NAME(name), 0); if (may_fail()) return NULL; return PVT; }
struct prv *pvt_get_prv(struct pvt *pvt) { g3_log(&L_getprv, pvt, NULL, NULL, 0, 0, 0); return PRVH; }
struct pcf *pvt_get_pcf(struct pvt *pvt) { g3_log(&L_getpcf, pvt, NULL, NULL, 0, 0, 0); return PCFH; }
struct prf *pvt_get_prf(struct pvt *pvt) { g3_log(&L_getprf, pvt, NULL, NULL, 0, 0, 0); return PRFH; }
/* ---- sort.c ---- */
int sort_init(struct sort *sort, struct bay *bay, int64_t n, const char *name)
{ (void) name; g3_log(&L_sortinit, sort, bay, NULL, (long) n, 0, 0); return may_fail(); }
int sort_set_input(struct sort *sort, int64_t index, struct chan *chan)
{ g3_log(&L_setin, sort, chan, NULL, (long) index, 0, 0); return may_fail(); }
struct chan *sort_get_output(struct sort *sort, int64_t index)
{ g3_log(&L_getout, sort, NULL, NULL, (long) index, 0, 0); return (index >= 0 && index < 4) ? OUT_OF(index) : NULL; }
/* ---- chan.c / bay.c / mux.c ---- */
static void g3_chan_init(struct chan *ch, enum chan_type type) { g3_log(&L_chaninit, ch, NULL, NULL, (long) type, 0, 0); }
#define chan_init(ch, type, ...) g3_chan_init((ch), (type))
int bay_register(struct bay *bay, struct chan *chan) { g3_log(&L_bayreg, bay, chan, NULL, 0, 0, 0); return may_fail(); }
int mux_init(struct mux *mux, struct bay *bay, struct chan *select, struct chan *output, mux_select_func_t select_func, int64_t ninputs)
{ (void) select_func; g3_log(&L_muxinit, mux, select, output, (long) ninputs, 0, 0); (void) bay; return may_fail(); }
int mux_set_input(struct mux *mux, int64_t index, struct chan *input) { g3_log(&L_muxin, mux, input, NULL, (long) index, 0, 0); return may_fail(); }
void mux_set_default(struct mux *mux, struct value def) { (void) def; g3_log(&L_muxdef, mux, NULL, NULL, 0, 0, 0); }
/* (select_tr / select_idle are not reached from these entries: mux_get_input / chan_read need no body) */
/* ---- pv/prv.c, pcf.c, prf.c, task.c ---- */
int prv_register(struct prv *prv, long row, long type, struct bay *bay, struct chan *chan, long flags)
{ g3_log(&L_prvreg, prv, bay, chan, row, type, flags); return may_fail(); }
int g_addtype_null;
struct pcf_type *pcf_add_type(struct pcf *pcf, int type_id, const char *label)
{ (void) label; g3_log(&L_addtype, pcf, NULL, NULL, type_id, 0, 0); if (nondet_bool()) { g_addtype_null = 1; verif_err(); return NULL; } return PCFTYPE; }
struct pcf_value *pcf_add_value(struct pcf_type *type, int value, const char *label)
{ g3_log(&L_addval, type, label, NULL, value, 0, 0); if (may_fail()) return NULL; return (struct pcf_value *) o_val[0]; }
int task_create_pcf_types(struct pcf_type *pcftype, struct task_type *types)
{ g3_log(&L_tasktypes, pcftype, types, NULL, 0, 0, 0); return may_fail(); }
/* the row NAME: the formatted text is dropped by the prelude's snprintf model, so what the name says is observed as the
 * format and the integer argument of the formatting that filled the buffer handed to prf_add (recorded by g3_snprintf
 * below): logged per call as y = the number formatted into the name, z = 1 iff the name is the buffer formatted last
 * and the format is the row-label format "~CPU %4<PRIi64>" */
static char *g_sf_dst; static int g_sf_rowfmt; static long g_sf_arg; static unsigned g_sf_n;
int prf_add(struct prf *prf, long index, const char *name)
{ g3_log(&L_prfadd, prf, NULL, NULL, index, g_sf_arg, name == g_sf_dst && g_sf_rowfmt); return may_fail(); }
/* ---- parson: thread k's metadata has (or lacks) the key nosv.can_breakdown; its value is a boolean (1/0) or
 * something else (json_value_get_boolean then answers -1) ---- */
static char o_meta[2][8], o_jval[2][8];
int g_has_key[2], g_bool[2], g_key_ok = 1;
#define KEY_OK(s) ((s)[0] == 'n' && (s)[1] == 'o' && (s)[2] == 's' && (s)[3] == 'v' && (s)[4] == '.' && (s)[5] == 'c' && (s)[6] == 'a' && (s)[7] == 'n' && (s)[8] == '_' && \
	(s)[9] == 'b' && (s)[10] == 'r' && (s)[11] == 'e' && (s)[12] == 'a' && (s)[13] == 'k' && (s)[14] == 'd' && (s)[15] == 'o' && (s)[16] == 'w' && (s)[17] == 'n' && (s)[18] == '\0')
JSON_Value *json_object_dotget_value(const JSON_Object *object, const char *name)
{
	int k = ((const void *) object == (const void *) o_meta[0]) ? 0 : 1;
	g3_log(&L_dotget, object, NULL, NULL, k, 0, 0);
	if (!KEY_OK(name)) g_key_ok = 0;
	return g_has_key[k] ? (JSON_Value *) o_jval[k] : NULL;
}
int json_value_get_boolean(const JSON_Value *value) { return g_bool[((const void *) value == (const void *) o_jval[0]) ? 0 : 1]; }
/* snprintf (row names): prelude model, truncation counted as a lower-layer failure; RECORDING: destination, whether the
 * format is the row-label format, and the (single, 64-bit integer) argument.  The only snprintf of the two breakdown.c
 * files is the row label. (Trusted: "snprintf prints its arguments according to the format".) */
_Static_assert(sizeof(PRIi64) == 3 && sizeof(long) == 8, "PRIi64 is \"li\" here (LP64): one 64-bit integer argument");
#define ROWFMT(f) ((f)[0] == '~' && (f)[1] == 'C' && (f)[2] == 'P' && (f)[3] == 'U' && (f)[4] == ' ' && (f)[5] == '%' && (f)[6] == '4' && \
	(f)[7] == PRIi64[0] && (f)[8] == PRIi64[1] && (f)[9] == '\0')           /* "~CPU %4" PRIi64, i.e. "~CPU %4li" */
static inline int g3_snprintf(char *s, size_t n, const char *fmt, long arg)
{
	g_sf_dst = s; g_sf_rowfmt = ROWFMT(fmt); g_sf_arg = arg; g_sf_n++;
	int r = verif_snprintf(s, n); if (n > 0 && (size_t) r >= n) g_lowfail++; return r;
}
#undef snprintf
#define snprintf(s, n, fmt, arg) g3_snprintf((s), (n), (fmt), (long) (arg))

#ifdef G3_NANOS6
#include "nanos6/breakdown.c"  /* the real /repo/src/emu/nanos6/breakdown.c */
#define MODEL_ID '6'
#define MCPU struct nanos6_cpu
#define MEMU struct nanos6_emu
#define MPROC struct nanos6_proc
#define BD_CREATE model_nanos6_breakdown_create
#define BD_CONNECT model_nanos6_breakdown_connect
#define BD_FINISH model_nanos6_breakdown_finish
#define BD_TYPE PRV_NANOS6_BREAKDOWN
#define CHECKS_META 0
_Static_assert(PRV_NANOS6_BREAKDOWN == 41, "documented Paraver type of the Nanos6 breakdown");
#else
#include "nosv/breakdown.c"    /* the real /repo/src/emu/nosv/breakdown.c */
#define MODEL_ID 'V'
#define MCPU struct nosv_cpu
#define MEMU struct nosv_emu
#define MPROC struct nosv_proc
#define BD_CREATE model_nosv_breakdown_create
#define BD_CONNECT model_nosv_breakdown_connect
#define BD_FINISH model_nosv_breakdown_finish
#define BD_TYPE PRV_NOSV_BREAKDOWN
#define CHECKS_META 1
_Static_assert(PRV_NOSV_BREAKDOWN == 17, "documented Paraver type of the nOS-V breakdown");
#endif

/* ---- the system: a CPU list of <= 4 CPUs; each loom contributes exactly one virtual CPU ---- */
static struct emu E;
static MEMU ME;
static struct cpu C0, C1, C2, C3;
static MCPU M0, M1, M2, M3;
static char trk[4][CH_MAX * sizeof(struct track)];      /* model tracks: only addresses are taken (connect_cpu) */
static struct cpu *CP[4] = { &C0, &C1, &C2, &C3 };
static MCPU *MC[4] = { &M0, &M1, &M2, &M3 };
static MCPU *PHY[4];        /* the k-th physical CPU's model data, in list order */
static int g_ncpu, g_np, g_nlooms;
static void build_system(void)
{
	E.ext.ctx[MODEL_ID] = &ME;
	g_ncpu = nondet_int();
	__CPROVER_assume(g_ncpu >= 0 && g_ncpu <= 4);
	g_np = 0; g_nlooms = 0;
	for (int i = 0; i < 4; i++) {
		CP[i]->next = (i + 1 < g_ncpu) ? CP[i + 1] : NULL;
		CP[i]->is_virtual = nondet_bool();
		CP[i]->gindex = nondet_long();
		CP[i]->ext.ctx[MODEL_ID] = MC[i];
		if (i < g_ncpu) {
			if (CP[i]->is_virtual) g_nlooms++;
			else PHY[g_np++] = MC[i];
		}
	}
	/* system invariant (system.c): one virtual CPU per loom; ncpus counts all CPUs including the virtual ones */
	__CPROVER_assume(g_nlooms <= 2 && (g_ncpu == 0 || g_nlooms >= 1));
	E.system.cpus = g_ncpu > 0 ? &C0 : NULL;
	E.system.ncpus = (size_t) g_ncpu;
	E.system.nlooms = (size_t) g_nlooms;
	E.system.nphycpus = (size_t) g_np;
}
static void reset_logs(void)
{
	L_addpvt.n = L_sortinit.n = L_chaninit.n = L_bayreg.n = L_muxinit.n = L_muxin.n = L_muxdef.n = L_setin.n = L_getout.n = L_prvreg.n = 0;
	L_addtype.n = L_addval.n = L_tasktypes.n = L_prfadd.n = L_getprv.n = L_getpcf.n = L_getprf.n = L_dotget.n = 0;
	g_lowfail = 0; g_err = 0; g_addtype_null = 0; g_key_ok = 1;
	g_sf_dst = NULL; g_sf_rowfmt = 0; g_sf_arg = 0; g_sf_n = 0;
}
#define BEMU (&ME.breakdown)

/* =====================================================================================================
 * model_*_breakdown_create
 * ===================================================================================================== */
#ifdef H_CREATE
void h_breakdown_create(void)
{
	static struct thread T0, T1;
	build_system();
	int nth = nondet_int();
	__CPROVER_assume(nth >= 0 && nth <= 2);
	E.system.threads = nth > 0 ? &T0 : NULL;
	T0.gnext = nth > 1 ? &T1 : NULL; T1.gnext = NULL;
	T0.meta = nondet_bool() ? NULL : (JSON_Object *) o_meta[0];
	T1.meta = nondet_bool() ? NULL : (JSON_Object *) o_meta[1];
	struct thread *TH[2] = { &T0, &T1 };
	for (int k = 0; k < 2; k++) { g_has_key[k] = nondet_bool(); g_bool[k] = nondet_int(); __CPROVER_assume(g_bool[k] >= -1 && g_bool[k] <= 1); }
	E.args.breakdown = nondet_int();
	reset_logs();

	int r = BD_CREATE(&E);

	if (E.args.breakdown == 0) {
		VASSERT(r == 0 && L_addpvt.n == 0 && L_sortinit.n == 0 && L_chaninit.n == 0 && L_bayreg.n == 0, "breakdown not requested: nothing is created");
		REACH("breakdown disabled");
		return;
	}
	/* the metadata of every thread allows the breakdown (PINNED: a non-boolean value counts as true) */
	int meta_ok = 1;
	for (int k = 0; k < 2; k++)
		if (CHECKS_META && k < nth && (TH[k]->meta == NULL || !g_has_key[k] || g_bool[k] == 0)) meta_ok = 0;
	VASSERT(g_key_ok, "the metadata key asked for is nosv.can_breakdown");
	if (r == 0) {
		VASSERT(g_lowfail == 0 && meta_ok, "accepted only if no lower layer refused and every thread can be broken down");
		/* rows == number of physical CPUs */
		VASSERT(L_addpvt.n == 1 && IS(L_addpvt, 0, &E.recorder, NULL, NULL, g_np, 1, 0), "one breakdown trace, named <model>-breakdown, with one row per physical CPU");
		VASSERT(BEMU->pvt == PVT && BEMU->nphycpus == g_np, "the trace and the number of physical CPUs are kept for connect/finish");
		VASSERT(L_sortinit.n == 1 && IS(L_sortinit, 0, &BEMU->sort, &E.bay, NULL, g_np, 0, 0), "the sort module has one row per physical CPU, in the emulator's bay");
		/* tr / tri of every physical CPU, of no virtual CPU */
		VASSERT(L_chaninit.n == 2 * g_np && L_bayreg.n == 2 * g_np, "two channels per physical CPU, none for a virtual CPU");
		for (int k = 0; k < 3; k++) {
			if (k >= g_np) continue;
			VASSERT(IS(L_chaninit, 2 * k, &PHY[k]->breakdown.tr, NULL, NULL, CHAN_SINGLE, 0, 0) && IS(L_chaninit, 2 * k + 1, &PHY[k]->breakdown.tri, NULL, NULL, CHAN_SINGLE, 0, 0),
				"k-th physical CPU: tr and tri are single-value channels");
			VASSERT(IS(L_bayreg, 2 * k, &E.bay, &PHY[k]->breakdown.tr, NULL, 0, 0, 0) && IS(L_bayreg, 2 * k + 1, &E.bay, &PHY[k]->breakdown.tri, NULL, 0, 0, 0),
				"k-th physical CPU: tr and tri are registered in the emulator's bay");
		}
		if (CHECKS_META) VASSERT(L_dotget.n == nth, "every thread's metadata is checked");
		REACH("breakdown created");
		if (g_np == 3) REACH("three physical CPUs and one virtual");
		if (g_np == 2 && g_nlooms == 2 && C0.is_virtual) REACH("two looms, the list starts with a virtual CPU");
		if (g_np == 0 && g_ncpu == 0) REACH("no CPUs");
#if CHECKS_META
		if (nth == 2 && g_bool[1] == -1) REACH("PINNED: non-boolean nosv.can_breakdown accepted");
#endif
	} else {
		VASSERT(g_err > 0, "a refusal is diagnosed");
		VASSERT(g_lowfail > 0 || !meta_ok, "refused only if a lower layer refused or some thread cannot be broken down");
#if CHECKS_META
		if (g_lowfail == 0 && nth == 2 && g_has_key[0] && g_bool[0] == 1 && g_has_key[1] && g_bool[1] == 0) REACH("second thread: nosv.can_breakdown false");
		if (g_lowfail == 0 && nth >= 1 && T0.meta != NULL && !g_has_key[0]) REACH("nosv.can_breakdown missing");
		if (g_lowfail == 0 && nth >= 1 && T0.meta == NULL) REACH("thread without metadata");
#endif
		if (g_lowfail > 0 && L_chaninit.n >= 2) REACH("refused by a lower layer after the first CPU");
	}
}
#endif

/* =====================================================================================================
 * model_*_breakdown_connect
 * ===================================================================================================== */
#ifdef H_CONNECT
void h_breakdown_connect(void)
{
	build_system();
	static char *TRK[4] = { trk[0], trk[1], trk[2], trk[3] };
	for (int i = 0; i < 4; i++) MC[i]->m.track = (struct track *) TRK[i];
	/* as model_*_breakdown_create leaves it (group g3_breakdown_create_*) */
	BEMU->pvt = PVT; BEMU->nphycpus = g_np;
	E.args.breakdown = nondet_int();
	reset_logs();

	int r = BD_CONNECT(&E);

	if (E.args.breakdown == 0) {
		VASSERT(r == 0 && L_setin.n == 0 && L_prvreg.n == 0 && L_muxinit.n == 0, "breakdown not requested: nothing is connected");
		REACH("breakdown disabled");
		return;
	}
	VASSERT(L_setin.n <= g_np && L_prvreg.n <= g_np, "never more sort inputs / rows than physical CPUs");
	for (int k = 0; k < 3; k++) {
		/* whatever was wired before a refusal was wired correctly */
		if (k < L_setin.n) VASSERT(IS(L_setin, k, &BEMU->sort, &PHY[k]->breakdown.tri, NULL, k, 0, 0), "sort input k is the tri channel of the k-th physical CPU");
		if (k < L_prvreg.n) VASSERT(IS(L_prvreg, k, PRVH, &E.bay, OUT_OF(k), k, BD_TYPE, PRV_SKIPDUP | PRV_ZERO) && IS(L_getout, k, &BEMU->sort, NULL, NULL, k, 0, 0),
			"sort output k is Paraver row k of the breakdown trace, breakdown type, zero values written");
	}
	if (r == 0) {
		VASSERT(g_lowfail == 0, "accepted only if no lower layer refused");
		VASSERT(L_setin.n == g_np && L_prvreg.n == g_np && L_getout.n == g_np, "exactly one sort input and one row per physical CPU (virtual CPUs excluded)");
		VASSERT(L_muxinit.n == 2 * g_np, "the two muxes of every physical CPU, of no virtual CPU");
		for (int k = 0; k < 3; k++) {
			if (k >= g_np) continue;
			/* the channel fed to the sort is the one this CPU's idle mux drives (tri = mux1(mux0(...)): c20_breakdown.c) */
			VASSERT(L_muxinit.c[2 * k].a == (const void *) &PHY[k]->breakdown.mux0 && L_muxinit.c[2 * k].c == (const void *) &PHY[k]->breakdown.tr, "k-th physical CPU: mux0 drives its tr");
			VASSERT(L_muxinit.c[2 * k + 1].a == (const void *) &PHY[k]->breakdown.mux1 && L_muxinit.c[2 * k + 1].c == (const void *) &PHY[k]->breakdown.tri, "k-th physical CPU: mux1 drives its tri");
		}
		for (int k = 0; k < 3; k++)
			if (k < g_np) VASSERT(L_getprv.c[k].a == (const void *) PVT, "rows go to the PRV of the breakdown trace");
		REACH("breakdown connected");
		if (g_np == 3) REACH("three physical CPUs and one virtual");
		if (g_np == 2 && g_ncpu == 4 && C0.is_virtual && C2.is_virtual) REACH("virtual CPUs interleaved: physical CPUs are list items 1 and 3");
		if (g_np == 0) REACH("no physical CPU");
	} else {
		VASSERT(g_err > 0 && g_lowfail > 0, "refused only by a lower layer, diagnosed");
		if (L_setin.n == 2) REACH("refused at the second CPU");
	}
}
#endif

/* =====================================================================================================
 * model_*_breakdown_finish
 * ===================================================================================================== */
#ifdef H_FINISH
static int has_value(int value, const char *label)
{
	int c = 0;
	for (int k = 0; k < NLOG; k++)
		if (k < L_addval.n && L_addval.c[k].a == (const void *) PCFTYPE && L_addval.c[k].x == value && L_addval.c[k].b == (const void *) label) c++;
	return c;
}
static int has_row(long row)
{
	int c = 0;
	for (int k = 0; k < NLOG; k++)
		if (k < L_prfadd.n && L_prfadd.c[k].a == (const void *) PRFH && L_prfadd.c[k].x == row) c++;
	return c;
}
/* the row is labelled (at least once) with a name formatted "~CPU %4li" from the number num */
static int has_row_named(long row, long num)
{
	int c = 0;
	for (int k = 0; k < NLOG; k++)
		if (k < L_prfadd.n && L_prfadd.c[k].a == (const void *) PRFH && L_prfadd.c[k].x == row && L_prfadd.c[k].y == num && L_prfadd.c[k].z == 1) c++;
	return c;
}
void h_breakdown_finish(void)
{
	static struct proc P0, P1;
	static MPROC MP0, MP1;
	static struct pcf_value_label ss[3], idle[3];
	static char l0[] = "a", l1[] = "b", l2[] = "c", l3[] = "d";
	static const struct pcf_value_label *labels[CH_MAX];
	static char tt0[8], tt1[8];
	E.ext.ctx[MODEL_ID] = &ME;
	/* label tables: entries until the first NULL label */
	int nss = nondet_int(), nidle = nondet_int();
	__CPROVER_assume(nss >= 0 && nss <= 2 && nidle >= 0 && nidle <= 2);
	ss[0].value = nondet_int(); ss[0].label = nss > 0 ? l0 : NULL; ss[1].value = nondet_int(); ss[1].label = nss > 1 ? l1 : NULL; ss[2].label = NULL;
	idle[0].value = nondet_int(); idle[0].label = nidle > 0 ? l2 : NULL; idle[1].value = nondet_int(); idle[1].label = nidle > 1 ? l3 : NULL; idle[2].label = NULL;
	for (int i = 0; i < CH_MAX; i++) labels[i] = NULL;
	labels[CH_SUBSYSTEM] = ss; labels[CH_IDLE] = idle;
	/* processes: the GLOBAL list (gnext); the per-loom hash chain (hh.next) is a different list and must not be used */
	int np = nondet_int();
	__CPROVER_assume(np >= 0 && np <= 2);
	E.system.procs = np > 0 ? &P0 : NULL;
	P0.gnext = np > 1 ? &P1 : NULL; P1.gnext = NULL;
	P0.hh.next = nondet_bool() ? NULL : (void *) &P1; P1.hh.next = nondet_bool() ? NULL : (void *) &P0;
	P0.ext.ctx[MODEL_ID] = &MP0; P1.ext.ctx[MODEL_ID] = &MP1;
	MP0.task_info.types = nondet_bool() ? NULL : (struct task_type *) tt0;
	MP1.task_info.types = nondet_bool() ? NULL : (struct task_type *) tt1;
	MPROC *MP[2] = { &MP0, &MP1 };
	/* as model_*_breakdown_create leaves it */
	long nrows = nondet_long();
	__CPROVER_assume(nrows >= 0 && nrows <= 3);
	BEMU->pvt = PVT; BEMU->nphycpus = nrows;
	E.args.breakdown = nondet_int();
	reset_logs();

	int r = BD_FINISH(&E, labels);

	if (E.args.breakdown == 0) {
		VASSERT(r == 0 && L_addtype.n == 0 && L_addval.n == 0 && L_tasktypes.n == 0 && L_prfadd.n == 0, "breakdown not requested: nothing is written");
		REACH("breakdown disabled");
		return;
	}
	VASSERT(L_addtype.n == 1 && IS(L_addtype, 0, PCFH, NULL, NULL, BD_TYPE, 0, 0) && L_getpcf.c[0].a == (const void *) PVT, "the breakdown type is declared in the PCF of the breakdown trace");
	if (g_addtype_null) {
		/* PINNED (observation, outside C20): pcf_add_type's failure is not checked; the NULL type is handed on to
		 * pcf_add_value.  Nothing more is claimed on this path. */
		REACH("PINNED: pcf_add_type failed, NULL handed on");
		return;
	}
	if (r == 0) {
		VASSERT(g_lowfail == 0, "accepted only if no lower layer refused");
		/* every subsystem label and every idle label, under the breakdown type */
		VASSERT(L_addval.n == nss + nidle, "exactly the labels of the two tables");
		if (nss > 0) VASSERT(has_value(ss[0].value, l0) >= 1, "first subsystem label");
		if (nss > 1) VASSERT(has_value(ss[1].value, l1) >= 1, "second subsystem label");
		if (nidle > 0) VASSERT(has_value(idle[0].value, l2) >= 1, "first idle label");
		if (nidle > 1) VASSERT(has_value(idle[1].value, l3) >= 1, "second idle label");
		/* the task types of every process of the system */
		VASSERT(L_tasktypes.n == np, "one task-type pass per process of the system");
		for (int k = 0; k < 2; k++)
			if (k < np) VASSERT(IS(L_tasktypes, k, PCFTYPE, MP[k]->task_info.types, NULL, 0, 0, 0), "process k of the GLOBAL list contributes its task types to the breakdown type");
		/* a label for every row */
		VASSERT(L_prfadd.n == nrows && L_getprf.c[0].a == (const void *) PVT, "one row label per row of the breakdown trace");
		for (long row = 0; row < 3; row++)
			if (row < nrows) VASSERT(has_row(row) == 1, "row labelled exactly once");
		/* WHICH label: an ARBITRARY row k of the n rows is named "~CPU %4li" with the number n - k (PINNED from the
		 * code: the rows of the breakdown trace are numbered downwards, row 0 is "~CPU n" and the last row "~CPU 1":
		 * the view stacks the sorted per-CPU states, the top row is the n-th).  Every row has its OWN number, all in
		 * 1..n; in terms of the position counted from the last row: label number == (index from the end) + 1 */
		long g_row = nondet_long();
		__CPROVER_assume(g_row >= 0 && g_row < 3);
		if (g_row < nrows) VASSERT(has_row_named(g_row, nrows - g_row) == 1, "row k is named ~CPU <nrows - k> (format and number pinned)");
		VASSERT(g_sf_n == (unsigned) nrows, "one name is formatted per row");
		REACH("labels written");
		if (nss == 2 && nidle == 2 && np == 2 && nrows == 3) REACH("two subsystem labels, two idle labels, two processes, three rows");
		if (nss == 0 && nidle == 0 && np == 0 && nrows == 0) REACH("nothing to label");
	} else {
		VASSERT(g_err > 0 && g_lowfail > 0, "refused only by a lower layer, diagnosed");
		if (L_tasktypes.n == 2) REACH("second process refused");
		if (L_prfadd.n == 1) REACH("first row label refused");
		/* the labels written before a refusal are the right ones too */
		for (long row = 0; row < 3; row++)
			if (row < L_prfadd.n) VASSERT(IS(L_prfadd, row, PRFH, NULL, NULL, row, nrows - row, 1), "rows are labelled in order, each ~CPU <nrows - row>");
	}
}
#endif
