/* C16 -- ovnisort: the data-moving core (sort_buf = count_events + index_events + qsort + write_events,
 * rebuild_ring) on the real src/emu/ovnisort.c -- BOUNDED stand-in with the cheapest encoding found:
 *   CK header-only events (12 bytes each, flags == 0), so that every size and offset is a constant;
 *   ovni_ev_size (rt/ovni.c, outside the unit; its contract is proved in C01) returns 12 and asserts flags == 0;
 *   qsort (libc) is ASSUMED to return SOME permutation of the pointer table that is sorted for the real
 *   cmp_ev (which is called on every adjacent pair) -- stability is not assumed unless -DQS_STABLE. */
int g_no_die;
#define VERIF_DIE_HOOK __CPROVER_assert(!g_no_die, "die() reached although the contract excludes it")
#include "prelude.h"
#include "ovni.h"

#ifndef CK
#define CK 3
#endif
#define CK_MAX 4
_Static_assert(CK >= 1 && CK <= CK_MAX, "events of this group");
#define EVSZ 12

unsigned g_evsize_calls;
int
ovni_ev_size(const struct ovni_ev *ev)
{
	g_evsize_calls++;
	VASSERT(ev->header.flags == 0, "header-only event (bound of this group)");
	return EVSZ;
}

/* permutation chosen by qsort: new table[i] = old table[g_perm[i]] */
long g_perm[CK_MAX];
unsigned g_qsort_calls;
long nondet_long(void);
static int cmp_ev(const void *a, const void *b);
void
qsort(void *base, size_t nmemb, size_t size, int (*compar)(const void *, const void *))
{
	g_qsort_calls++;
	VASSERT(nmemb == CK && size == sizeof(struct ovni_ev *), "qsort on the whole pointer table");
	VASSERT(compar == cmp_ev, "qsort with cmp_ev");
	struct ovni_ev **t = base;
	struct ovni_ev *old[CK_MAX];
	for (int i = 0; i < CK; i++) old[i] = t[i];
	for (int i = 0; i < CK; i++) {
		long p = nondet_long();
		__CPROVER_assume(0 <= p && p < CK);
		for (int j = 0; j < i; j++) __CPROVER_assume(g_perm[j] != p);   /* a permutation */
		g_perm[i] = p;
		t[i] = old[p];
	}
	for (int i = 0; i + 1 < CK; i++) {
		int c = cmp_ev(&t[i], &t[i + 1]);
		__CPROVER_assume(c <= 0);                                        /* sorted for cmp_ev */
#ifdef QS_STABLE
		__CPROVER_assume(c != 0 || g_perm[i] < g_perm[i + 1]);           /* stable (glibc merge sort) */
#endif
	}
}
ssize_t pwrite(int fd, const void *buf, size_t count, off_t offset) { (void) fd; (void) buf; (void) offset; (void) count; return nondet_long(); }
struct stream;
int stream_step(struct stream *stream) { (void) stream; return nondet_int(); }
struct ovni_ev g_cur_ev;
struct ovni_ev *stream_ev(struct stream *stream) { (void) stream; return &g_cur_ev; }
uint64_t ovni_ev_get_clock(const struct ovni_ev *ev) { return ev->header.clock; }

#define main ovnisort_main
#include "ovnisort.c"          /* the real /repo/src/emu/ovnisort.c */
#undef main

#define RV __CPROVER_return_value
#define OLD(e) __CPROVER_old(e)
#define CLK(b, i) (((const struct ovni_ev *) ((b) + EVSZ * (i)))->header.clock)
#define FLG(b, i) ((b)[EVSZ * (i)])

/* ================================================================= sort_buf */
/* buf[0..12*CK) receives the CK events of src[0..12*CK): a permutation (g_perm), each event byte for byte,
 * in non-decreasing clock order; src is not written.  Clocks below 2^63 (see cmp_ev finding). */
long g_b;                    /* byte observer inside an event: 0..11 */
#define HDRONLY(i) ((i) >= CK || (FLG(src, i) == 0 && CLK(src, i) < (1UL << 63)))
#define SAME_EV(i) ((i) >= CK || buf[EVSZ * (i) + g_b] == src[EVSZ * g_perm[(i)] + g_b])
#define IN_RANGE(i) ((i) >= CK || (0 <= g_perm[(i)] && g_perm[(i)] < CK))
#define DISTINCT(i, j) ((j) >= CK || g_perm[(i)] != g_perm[(j)])
#define ORDERED(i) ((i) + 1 >= CK || CLK(buf, i) <= CLK(buf, (i) + 1))
#define STABLE(i) ((i) + 1 >= CK || CLK(buf, i) != CLK(buf, (i) + 1) || g_perm[(i)] < g_perm[(i) + 1])
uint64_t w_k0, w_k1, w_k2, w_k3;
WITNESS(sort_buf);
#define WK(i, w) ((i) >= CK || (w) == CLK(src, i))
void c_sort_buf(uint8_t *src, uint8_t *buf, int64_t bufsize)
__CPROVER_requires(bufsize == EVSZ * CK && __CPROVER_is_fresh(src, EVSZ * CK) && __CPROVER_is_fresh(buf, EVSZ * CK))
__CPROVER_requires(HDRONLY(0) && HDRONLY(1) && HDRONLY(2) && HDRONLY(3))
__CPROVER_requires(0 <= g_b && g_b < EVSZ && g_qsort_calls == 0)
__CPROVER_requires(WBIND(sort_buf, WK(0, w_k0) && WK(1, w_k1) && WK(2, w_k2) && WK(3, w_k3)))
__CPROVER_assigns(__CPROVER_object_whole(buf), __CPROVER_object_whole(g_perm), g_qsort_calls, g_evsize_calls, g_died)
__CPROVER_ensures(g_qsort_calls == 1)
/* g_perm is a permutation of 0..CK-1 */
__CPROVER_ensures(IN_RANGE(0) && IN_RANGE(1) && IN_RANGE(2) && IN_RANGE(3))
__CPROVER_ensures(DISTINCT(0, 1) && DISTINCT(0, 2) && DISTINCT(0, 3) && DISTINCT(1, 2) && DISTINCT(1, 3) && DISTINCT(2, 3))
/* output event i is input event g_perm[i], byte for byte (arbitrary byte g_b) */
__CPROVER_ensures(SAME_EV(0) && SAME_EV(1) && SAME_EV(2) && SAME_EV(3))
/* non-decreasing clocks */
__CPROVER_ensures(ORDERED(0) && ORDERED(1) && ORDERED(2))
#ifdef QS_STABLE
/* with a stable qsort, events with equal clocks keep their relative order */
__CPROVER_ensures(STABLE(0) && STABLE(1) && STABLE(2))
#endif
;
void h_sort_buf(void)
{
	uint8_t *src, *buf; int64_t bufsize;
	WITNESS_ON(sort_buf);
	g_no_die = 0;            /* malloc/calloc failure is fatal */
	sort_buf(src, buf, bufsize);
	REACH("sort_buf returns");
#if CK >= 3
	if (g_perm[0] == 2 && g_perm[1] == 0 && g_perm[2] == 1) REACH("last event moved to the front");
#ifndef QS_STABLE
	if (w_k0 == w_k1 && g_perm[0] == 1 && g_perm[1] == 0) REACH("an unstable qsort may swap equal clocks");
#else
	if (w_k0 == w_k1 && g_perm[0] == 0 && g_perm[1] == 1) REACH("equal clocks kept in order by a stable qsort");
#endif
	if (g_perm[0] == 0 && g_perm[1] == 1 && g_perm[2] == 2) REACH("already sorted");
#endif
}

/* ================================================================= rebuild_ring */
/* After the region [first, last) has been rewritten, the ring positions start .. tail-1 are re-pointed
 * to the consecutive events of the region: position start+j (circular) -> first + 12*j.  Dies unless the
 * region holds exactly as many events as there are positions.  Ring size RR_N (constant). */
#ifndef RR_N
#define RR_N 4
#endif
#define RR_MAX 5
_Static_assert(RR_N >= 2 && RR_N <= RR_MAX, "ring size of this group");
#define RCOUNT(h, t) ((t) >= (h) ? (t) - (h) : (t) - (h) + RR_N)
long g_nev;                  /* events in the region */
#define REPOINTED(k) ((k) >= RR_N || (RCOUNT(start, (long long) (k)) < RCOUNT(start, (long long) r->tail) ? \
	r->ev[(k)] == (struct ovni_ev *) ((uint8_t *) first + EVSZ * RCOUNT(start, (long long) (k))) : r->ev[(k)] == g_oldev[(k)]))
struct ovni_ev *g_oldev[RR_MAX];
#define HDR0(j) ((j) >= g_nev || ((uint8_t *) first)[EVSZ * (j)] == 0)
#define BINDEV(k) ((k) >= RR_N || g_oldev[(k)] == r->ev[(k)])
long w_rr_start, w_rr_tail;
WITNESS(rebuild_ring);
void c_rebuild_ring(struct ring *r, long long start, struct ovni_ev *first, struct ovni_ev *last)
__CPROVER_requires(__CPROVER_is_fresh(r, sizeof(struct ring)) && r->size == RR_N && __CPROVER_is_fresh(r->ev, RR_N * sizeof(struct ovni_ev *)))
__CPROVER_requires(0 <= r->tail && r->tail < RR_N && 0 <= start && start < RR_N)
__CPROVER_requires(0 <= g_nev && g_nev <= RR_MAX && __CPROVER_is_fresh(first, EVSZ * (RR_MAX + 1)) && last == (struct ovni_ev *) ((uint8_t *) first + EVSZ * g_nev))
__CPROVER_requires(HDR0(0) && HDR0(1) && HDR0(2) && HDR0(3) && HDR0(4))
__CPROVER_requires(BINDEV(0) && BINDEV(1) && BINDEV(2) && BINDEV(3) && BINDEV(4))
__CPROVER_requires(WBIND(rebuild_ring, w_rr_start == start && w_rr_tail == r->tail))
__CPROVER_assigns(__CPROVER_object_whole(r->ev), g_evsize_calls, g_died)
/* returns only if the region holds exactly one event per ring position from start to tail */
__CPROVER_ensures(g_nev == RCOUNT(start, (long long) r->tail))
__CPROVER_ensures(REPOINTED(0) && REPOINTED(1) && REPOINTED(2) && REPOINTED(3) && REPOINTED(4))
;
void h_rebuild_ring(void)
{
	struct ring *r; long long start; struct ovni_ev *first, *last;
	WITNESS_ON(rebuild_ring);
	g_no_die = 0;
	rebuild_ring(r, start, first, last);
	REACH("rebuild_ring returns");
	if (w_rr_tail < w_rr_start) REACH("positions wrap around the end of the ring");
	if (g_nev == RR_N - 1) REACH("whole window re-pointed");
	if (g_nev == 0) REACH("nothing to re-point");
}

/* ================================================================= find_min_clock (bounded: CK header-only events) */
#define MIN_LE(i) ((i) >= CK || RV <= CLK(src, i))
#define MIN_EQ(i) ((i) < CK && RV == CLK(src, i))
uint64_t c_find_min_clock(uint8_t *src, uint8_t *end)
__CPROVER_requires(__CPROVER_is_fresh(src, EVSZ * CK) && end == src + EVSZ * CK)
__CPROVER_requires((FLG(src, 0) == 0) && (1 >= CK || FLG(src, 1) == 0) && (2 >= CK || FLG(src, 2) == 0) && (3 >= CK || FLG(src, 3) == 0))
__CPROVER_assigns(g_evsize_calls)
/* the smallest clock (unsigned) of the region */
__CPROVER_ensures(MIN_LE(0) && MIN_LE(1) && MIN_LE(2) && MIN_LE(3))
__CPROVER_ensures(MIN_EQ(0) || MIN_EQ(1) || MIN_EQ(2) || MIN_EQ(3))
;
void h_find_min_clock(void)
{
	uint8_t *src, *end;
	g_no_die = 1;
	uint64_t m = find_min_clock(src, end);
	(void) m;
	REACH("find_min_clock returns");
}

/* ================================================================= ring_check (bounded: ring size RR_N) */
/* returns iff the clocks of the ring entries start .. tail-1 are non-decreasing AS UNSIGNED 64-bit values
 * (dies otherwise).  Note: sort_buf orders the same events with cmp_ev, i.e. as SIGNED values. */
uint64_t g_rclk[RR_MAX];
#define FROM(k) RCOUNT(start, (long long) (k))
#define NCHK RCOUNT(start, (long long) r->tail)
#define RC_ENTRY(k) ((k) >= RR_N || !(FROM(k) < NCHK) || (__CPROVER_is_fresh(r->ev[(k)], sizeof(struct ovni_ev_header)) && g_rclk[(k)] == r->ev[(k)]->header.clock))
#define NXT(k) (((k) + 1) % RR_N)
#define RC_PAIR(k) ((k) >= RR_N || !(FROM(k) + 1 < NCHK) || g_rclk[(k)] <= g_rclk[NXT(k)])
#define RC_SORTED (RC_PAIR(0) && RC_PAIR(1) && RC_PAIR(2) && RC_PAIR(3) && RC_PAIR(4))
int g_rc_sorted;
void c_ring_check(struct ring *r, long long start)
__CPROVER_requires(__CPROVER_is_fresh(r, sizeof(struct ring)) && r->size == RR_N && __CPROVER_is_fresh(r->ev, RR_N * sizeof(struct ovni_ev *)))
__CPROVER_requires(0 <= r->tail && r->tail < RR_N && 0 <= start && start < RR_N)
__CPROVER_requires(RC_ENTRY(0) && RC_ENTRY(1) && RC_ENTRY(2) && RC_ENTRY(3) && RC_ENTRY(4))
/* a sorted window must not die: the die hook asserts !g_no_die */
__CPROVER_requires(g_rc_sorted == (RC_SORTED ? 1 : 0) && g_no_die == g_rc_sorted)
__CPROVER_assigns(g_died)
__CPROVER_ensures(g_rc_sorted == 1)
;
void h_ring_check(void)
{
	struct ring *r; long long start;
	ring_check(r, start);
	REACH("ring_check returns on a sorted window");
}
void h_ring_check_dies(void)
{
	/* the other direction is reachable: an unsorted window is fatal */
	struct ovni_ev a, b; struct ovni_ev *tab[3] = { &a, &b, NULL }; struct ring r = { .head = 0, .tail = 2, .size = 3, .ev = tab };
	__CPROVER_assume(b.header.clock < a.header.clock);
	g_no_die = 0;
	REACH("ring_check on an unsorted window attempted");
	ring_check(&r, 0);
	VASSERT(0, "ring_check must die on an unsorted window");
}
