/* C12 -- stream metadata checks on the real code: check_version / load_json
 * (stream.c), thread_load_metadata / thread_stream_get_tid (thread.c),
 * proc_stream_get_pid (proc.c), is_thread_stream (system.c), loom_name (loom.c).
 * One unit per group: -DC12_META_THREAD / _PROC / _SYSTEM / _LOOM selects the file
 * included next to stream.c (which provides the real stream_metadata()).
 *
 * parson (src/parson.c, 2.5 kLoC) is outside the units: its getters are modelled
 * over a ghost view of the parsed stream.json (trusted, see plan):
 *   - a key is present or not; a present value is a number, a string or neither
 *   - json_object_[dot]get_value: the value, NULL if the key is absent
 *   - json_object_[dot]has_value: 1 iff the key is present
 *   - json_number / json_object_dotget_number: the number, 0 if absent / not a number
 *   - json_object_dotget_string: the string, NULL if absent / not a string
 *   - json_parse_file_with_comments: NULL if the file cannot be read or parsed
 *   - json_value_get_object: NULL if the root is not an object */
#include "prelude.h"
#include "parson.h"

enum jkey { K_VERSION, K_FINISHED, K_TID, K_PID, K_PART, K_LOOM, K_N };
struct jval { int present, is_num, is_str; double num; const char *str; };
struct jval g_j[K_N];          /* arbitrary: DFCC havocs statics */
int g_j_parse_ok, g_j_is_object;
char g_valcell[K_N], g_rootcell, g_objcell;   /* addresses stand for parson's opaque objects */
#define META_OBJ ((JSON_Object *) &g_objcell)

static int jkey_of(const char *name)
{
	if (strcmp(name, "version") == 0) return K_VERSION;
	if (strcmp(name, "ovni.finished") == 0) return K_FINISHED;
	if (strcmp(name, "ovni.tid") == 0) return K_TID;
	if (strcmp(name, "ovni.pid") == 0) return K_PID;
	if (strcmp(name, "ovni.part") == 0) return K_PART;
	if (strcmp(name, "ovni.loom") == 0) return K_LOOM;
	return -1;   /* any other key: absent in this view */
}
JSON_Value *json_parse_file_with_comments(const char *filename) { (void) filename; return g_j_parse_ok ? (JSON_Value *) &g_rootcell : NULL; }
JSON_Object *json_value_get_object(const JSON_Value *v) { return (v == (JSON_Value *) &g_rootcell && g_j_is_object) ? META_OBJ : NULL; }
JSON_Value *json_object_dotget_value(const JSON_Object *o, const char *name)
{
	int k = jkey_of(name);
	if (o != META_OBJ || k < 0 || !g_j[k].present) return NULL;
	return (JSON_Value *) &g_valcell[k];
}
JSON_Value *json_object_get_value(const JSON_Object *o, const char *name) { return json_object_dotget_value(o, name); }
int json_object_dothas_value(const JSON_Object *o, const char *name) { return json_object_dotget_value(o, name) != NULL; }
int json_object_has_value(const JSON_Object *o, const char *name) { return json_object_dotget_value(o, name) != NULL; }
double json_value_get_number(const JSON_Value *v)
{
	for (int k = 0; k < K_N; k++)
		if (v == (JSON_Value *) &g_valcell[k])
			return g_j[k].is_num ? g_j[k].num : 0.0;
	return 0.0;
}
double json_number(const JSON_Value *v) { return json_value_get_number(v); }
double json_object_dotget_number(const JSON_Object *o, const char *name) { JSON_Value *v = json_object_dotget_value(o, name); return v ? json_value_get_number(v) : 0.0; }
const char *json_object_dotget_string(const JSON_Object *o, const char *name)
{
	int k = jkey_of(name);
	if (o != META_OBJ || k < 0 || !g_j[k].present || !g_j[k].is_str) return NULL;
	return g_j[k].str;
}

#include "stream.c"              /* real /repo/src/emu/stream.c */
#if defined(C12_META_THREAD)
#include "thread.c"              /* real /repo/src/emu/thread.c */
#elif defined(C12_META_PROC)
#include "proc.c"                /* real /repo/src/emu/proc.c */
#elif defined(C12_META_SYSTEM)
#include "system.c"              /* real /repo/src/emu/system.c */
#elif defined(C12_META_LOOM)
#include "loom.c"                /* real /repo/src/emu/loom.c */
#endif

/* a number as the code sees it: 0 when the key is absent or not a number */
#define JNUM(k) ((g_j[k].present && g_j[k].is_num) ? g_j[k].num : 0.0)
/* (int) of a double outside the int range is undefined behaviour; the numbers of
 * stream.json are file-controlled.  Carve-out, see the plan's assumptions. */
#ifndef C12_ANYNUM
#define INT_RANGE(x) ((x) > -2147483649.0 && (x) < 2147483648.0 && (x) == (x))
#else
#define INT_RANGE(x) 1   /* twin group: shows the undefined conversion */
#endif
#define REFUSED (__CPROVER_return_value == -1 && g_err > __CPROVER_old(g_err))

/* a stream whose metadata has been loaded (stream_load stores load_json's result) */
#define REQ_LOADED_STREAM(s) \
	__CPROVER_requires(__CPROVER_is_fresh(s, sizeof(*(s)))) \
	__CPROVER_requires((s)->meta == NULL || (s)->meta == META_OBJ) \
	__CPROVER_requires(DIAG_PRE)

int w_present, w_is_num, w_is_str, w_parse_ok, w_is_object, w_had_meta;
int w_num_is1, w_num_is0;    /* integer view of w_num (the runner passes integer witnesses only) */
double w_num;

#if !defined(C12_META_THREAD) && !defined(C12_META_PROC) && !defined(C12_META_SYSTEM) && !defined(C12_META_LOOM)
/* ---------------- check_version: "version" present and equal to 3 ---------------- */
_Static_assert(OVNI_METADATA_VERSION == 3, "metadata version of trace_spec.md");
#define VERSION_OK (g_j[K_VERSION].present && g_j[K_VERSION].is_num && (int) g_j[K_VERSION].num == 3)
WITNESS(check_version);
int c_check_version(JSON_Object *meta)
__CPROVER_requires(meta == META_OBJ && DIAG_PRE)
__CPROVER_requires(INT_RANGE(JNUM(K_VERSION)))
__CPROVER_requires(WBIND(check_version, w_present == g_j[K_VERSION].present && w_is_num == g_j[K_VERSION].is_num && w_num == g_j[K_VERSION].num))
__CPROVER_assigns(DIAG_FRAME)
__CPROVER_ensures(__CPROVER_return_value == 0 || __CPROVER_return_value == -1)
__CPROVER_ensures((__CPROVER_return_value == 0) == VERSION_OK)
__CPROVER_ensures(__CPROVER_return_value == 0 || g_err > __CPROVER_old(g_err))
;
void h_check_version(void)
{
	JSON_Object *meta = META_OBJ;
	WITNESS_ON(check_version);
	int r = check_version(meta);
	if (r == 0) REACH("version 3 accepted");
	if (r != 0 && !w_present) REACH("missing version refused");
	if (r != 0 && w_present && w_is_num && w_num == 2.0) REACH("version 2 refused");
	if (r != 0 && w_present && w_is_num && w_num == 4.0) REACH("version 4 refused");
	if (r != 0 && w_present && !w_is_num) REACH("non-numeric version refused");
}

/* ---------------- load_json: unparsable / non-object / version-mismatched metadata ---------------- */
WITNESS(load_json);
JSON_Object *c_load_json(const char *path)
__CPROVER_requires(DIAG_PRE)
__CPROVER_requires(INT_RANGE(JNUM(K_VERSION)))
__CPROVER_requires(WBIND(load_json, w_parse_ok == g_j_parse_ok && w_is_object == g_j_is_object &&
	w_present == g_j[K_VERSION].present && w_is_num == g_j[K_VERSION].is_num && w_num == g_j[K_VERSION].num))
__CPROVER_assigns(DIAG_FRAME)
__CPROVER_ensures((__CPROVER_return_value != NULL) == (g_j_parse_ok && g_j_is_object && VERSION_OK))
__CPROVER_ensures(__CPROVER_return_value == NULL || __CPROVER_return_value == META_OBJ)
__CPROVER_ensures(__CPROVER_return_value != NULL || g_err > __CPROVER_old(g_err))
;
void h_load_json(void)
{
	const char *path;
	WITNESS_ON(load_json);
	JSON_Object *m = load_json(path);
	if (m != NULL) REACH("metadata loaded");
	if (m == NULL && !w_parse_ok) REACH("unparsable metadata refused");
	if (m == NULL && w_parse_ok && !w_is_object) REACH("non-object metadata refused");
	if (m == NULL && w_parse_ok && w_is_object && w_present && w_is_num && w_num == 2.0) REACH("old metadata version refused");
	if (m == NULL && w_parse_ok && w_is_object && !w_present) REACH("metadata without version refused");
}
#endif

#if defined(C12_META_THREAD)
/* ---------------- thread_load_metadata: "ovni.finished" must be 1 ---------------- */
#define FINISHED_OK (g_j[K_FINISHED].present && g_j[K_FINISHED].is_num && g_j[K_FINISHED].num == 1.0)
WITNESS(thread_load_metadata);
int c_thread_load_metadata(struct thread *thread, struct stream *s)
__CPROVER_requires(__CPROVER_is_fresh(thread, sizeof(*thread)))
REQ_LOADED_STREAM(s)
__CPROVER_requires(WBIND(thread_load_metadata, w_had_meta == (thread->meta != NULL) &&
	w_present == g_j[K_FINISHED].present && w_is_num == g_j[K_FINISHED].is_num && w_num == g_j[K_FINISHED].num &&
	w_num_is1 == (g_j[K_FINISHED].num == 1.0) && w_num_is0 == (g_j[K_FINISHED].num == 0.0)))
__CPROVER_assigns(thread->meta, DIAG_FRAME, g_died)
__CPROVER_ensures(__CPROVER_return_value == 0 || __CPROVER_return_value == -1)
/* returns at all only for a stream with metadata (otherwise die) */
__CPROVER_ensures(s->meta == META_OBJ)
__CPROVER_ensures((__CPROVER_return_value == 0) == (__CPROVER_old(thread->meta) == NULL && FINISHED_OK))
__CPROVER_ensures(__CPROVER_return_value != 0 || thread->meta == s->meta)
__CPROVER_ensures(__CPROVER_return_value == 0 || (thread->meta == __CPROVER_old(thread->meta) && g_err > __CPROVER_old(g_err)))
;
void h_thread_load_metadata(void)
{
	struct thread *t; struct stream *s;
	WITNESS_ON(thread_load_metadata);
	int r = thread_load_metadata(t, s);
	if (r == 0) REACH("finished stream accepted");
	if (r != 0 && !w_had_meta && !w_present) REACH("missing ovni.finished refused");
	if (r != 0 && !w_had_meta && w_present && w_is_num && w_num == 0.0) REACH("ovni.finished = 0 refused");
	if (r != 0 && !w_had_meta && w_present && w_is_num && w_num == 2.0) REACH("ovni.finished = 2 refused");
	if (r != 0 && w_had_meta) REACH("second load refused");
}

/* ---------------- thread_stream_get_tid: "ovni.tid" present and non-zero ---------------- */
WITNESS(thread_stream_get_tid);
int c_thread_stream_get_tid(struct stream *s)
REQ_LOADED_STREAM(s)
__CPROVER_requires(INT_RANGE(JNUM(K_TID)))
__CPROVER_requires(WBIND(thread_stream_get_tid, w_present == g_j[K_TID].present && w_is_num == g_j[K_TID].is_num && w_num == g_j[K_TID].num))
__CPROVER_assigns(DIAG_FRAME, g_died)
__CPROVER_ensures(s->meta == META_OBJ)
/* absent, not a number, or zero: refused */
__CPROVER_ensures(JNUM(K_TID) != 0.0 || REFUSED)
/* otherwise the number, truncated to int */
__CPROVER_ensures(JNUM(K_TID) == 0.0 || __CPROVER_return_value == (int) g_j[K_TID].num)
;
void h_thread_stream_get_tid(void)
{
	struct stream *s;
	WITNESS_ON(thread_stream_get_tid);
	int r = thread_stream_get_tid(s);
	if (r > 0) REACH("tid returned");
	if (r == -1 && !w_present) REACH("missing ovni.tid refused");
	if (r == -1 && w_present && w_is_num && w_num == 0.0) REACH("ovni.tid = 0 refused");
	if (r == -1 && w_present && !w_is_num) REACH("non-numeric ovni.tid refused");
}
#endif

#if defined(C12_META_PROC)
/* ---------------- proc_stream_get_pid: "ovni.pid" present and non-zero ---------------- */
WITNESS(proc_stream_get_pid);
int c_proc_stream_get_pid(struct stream *s)
REQ_LOADED_STREAM(s)
__CPROVER_requires(INT_RANGE(JNUM(K_PID)))
__CPROVER_requires(WBIND(proc_stream_get_pid, w_present == g_j[K_PID].present && w_is_num == g_j[K_PID].is_num && w_num == g_j[K_PID].num))
__CPROVER_assigns(DIAG_FRAME, g_died)
__CPROVER_ensures(s->meta == META_OBJ)
__CPROVER_ensures(JNUM(K_PID) != 0.0 || REFUSED)
__CPROVER_ensures(JNUM(K_PID) == 0.0 || __CPROVER_return_value == (int) g_j[K_PID].num)
;
void h_proc_stream_get_pid(void)
{
	struct stream *s;
	WITNESS_ON(proc_stream_get_pid);
	int r = proc_stream_get_pid(s);
	if (r > 0) REACH("pid returned");
	if (r == -1 && !w_present) REACH("missing ovni.pid refused");
	if (r == -1 && w_present && w_is_num && w_num == 0.0) REACH("ovni.pid = 0 refused");
}
#endif

#if defined(C12_META_SYSTEM)
/* ---------------- is_thread_stream: "ovni.part" mandatory; 1 iff it is "thread" ---------------- */
#define PART_STR (g_j[K_PART].present && g_j[K_PART].is_str)
#define PART_IS_THREAD(p) ((p)[0] == 't' && (p)[1] == 'h' && (p)[2] == 'r' && (p)[3] == 'e' && (p)[4] == 'a' && (p)[5] == 'd' && (p)[6] == '\0')
WITNESS(is_thread_stream);
int c_is_thread_stream(struct stream *s)
REQ_LOADED_STREAM(s)
/* the part string: any nil-terminated string of at most 7 characters (bound of this group) */
__CPROVER_requires(!PART_STR || __CPROVER_is_fresh(g_j[K_PART].str, 8))
__CPROVER_requires(!PART_STR || g_j[K_PART].str[7] == '\0')
__CPROVER_requires(WBIND(is_thread_stream, w_present == g_j[K_PART].present && w_is_str == g_j[K_PART].is_str))
__CPROVER_assigns(DIAG_FRAME, g_died)
__CPROVER_ensures(s->meta == META_OBJ)
__CPROVER_ensures(__CPROVER_return_value == -1 || __CPROVER_return_value == 0 || __CPROVER_return_value == 1)
__CPROVER_ensures((__CPROVER_return_value == -1) == !PART_STR)
__CPROVER_ensures(__CPROVER_return_value != -1 || g_err > __CPROVER_old(g_err))
__CPROVER_ensures((__CPROVER_return_value == 1) == (PART_STR && PART_IS_THREAD(g_j[K_PART].str)))
;
void h_is_thread_stream(void)
{
	struct stream *s;
	WITNESS_ON(is_thread_stream);
	int r = is_thread_stream(s);
	if (r == 1) REACH("thread stream recognised");
	if (r == 0) REACH("other part ignored");
	if (r == -1 && !w_present) REACH("missing ovni.part refused");
	if (r == -1 && w_present && !w_is_str) REACH("non-string ovni.part refused");
}
#endif

#if defined(C12_META_LOOM)
/* ---------------- loom_name: "ovni.loom" mandatory ---------------- */
WITNESS(loom_name);
const char *c_loom_name(struct stream *s)
REQ_LOADED_STREAM(s)
__CPROVER_requires(WBIND(loom_name, w_present == g_j[K_LOOM].present && w_is_str == g_j[K_LOOM].is_str))
__CPROVER_assigns(DIAG_FRAME, g_died)
__CPROVER_ensures(s->meta == META_OBJ)
__CPROVER_ensures((__CPROVER_return_value == NULL) == !(g_j[K_LOOM].present && g_j[K_LOOM].is_str && g_j[K_LOOM].str != NULL))
__CPROVER_ensures(__CPROVER_return_value == NULL || __CPROVER_return_value == g_j[K_LOOM].str)
__CPROVER_ensures(__CPROVER_return_value != NULL || g_err > __CPROVER_old(g_err))
;
void h_loom_name(void)
{
	struct stream *s;
	WITNESS_ON(loom_name);
	const char *n = loom_name(s);
	if (n != NULL) REACH("loom name returned");
	if (n == NULL && !w_present) REACH("missing ovni.loom refused");
}
#endif
