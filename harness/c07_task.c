/* C07 -- task layer (real task.c over the proved body.c contracts).
 * The TU is c07_body.c (prelude, trusted rebindings, real body.c, body contracts)
 * followed by the real task.c.  body_execute/pause/resume/end and body_create are
 * replaced by their proved self-contained contracts cr_body_*; the uthash lookups
 * body_find / task_find / task_type_find by ASSUMED one-cell map contracts. */
#define C07_HAVE_TASK_C 1
#include "c07_body.c"
#include "task.c"          /* the real /repo/src/emu/task.c */

/* body flags derived from task flags (spec side) */
#define BFLAGS(tf) ( (((tf) & TASK_FLAG_RELAX_NESTING) ? BODY_FLAG_RELAX_NESTING : 0) | \
	(((tf) & TASK_FLAG_RESURRECT) ? BODY_FLAG_RESURRECT : 0) | \
	(((tf) & TASK_FLAG_PAUSE) ? BODY_FLAG_PAUSE : 0) )
#define LONGMAX 0x7fffffffffffffffL

/* ---------------- assumed one-cell map contracts (uthash HASH_FIND) ------- */
struct task *g_tf_head; uint32_t g_tf_id; struct task *g_tf_task;
struct task *c_task_find(struct task *tasks, uint32_t task_id)
__CPROVER_requires(tasks == g_tf_head && task_id == g_tf_id)
__CPROVER_assigns()
__CPROVER_ensures(__CPROVER_pointer_equals(RV, g_tf_task))
;
struct task_type *g_ttf_head; uint32_t g_ttf_id; struct task_type *g_ttf_type;
struct task_type *c_task_type_find(struct task_type *types, uint32_t type_id)
__CPROVER_requires(types == g_ttf_head && type_id == g_ttf_id)
__CPROVER_assigns()
__CPROVER_ensures(__CPROVER_pointer_equals(RV, g_ttf_type))
;

/* ---------------- task_create ----------------
 * accepted exactly when the id is new, the type exists and calloc did not fail;
 * the new task has the given id, flags and the found type, no bodies, and is
 * inserted in info->tasks under its id. */
#define NEWTASK ((struct task *) g_hadd_item)
int w_tc_dup, w_tc_type; unsigned w_tc_flags;
WITNESS(task_create);
int c_task_create(struct task_info *info, uint32_t type_id, uint32_t task_id, uint32_t flags)
__CPROVER_requires(__CPROVER_is_fresh(info, sizeof(*info)))
__CPROVER_requires(g_tf_head == info->tasks && g_tf_id == task_id &&
	(g_tf_task == NULL || __CPROVER_is_fresh(g_tf_task, sizeof(struct task))))
__CPROVER_requires(g_ttf_head == info->types && g_ttf_id == type_id &&
	(g_ttf_type == NULL || __CPROVER_is_fresh(g_ttf_type, sizeof(struct task_type))))
__CPROVER_requires(WBIND(task_create, w_tc_dup == (g_tf_task != NULL) && w_tc_type == (g_ttf_type != NULL) && w_tc_flags == flags))
__CPROVER_requires(DIAG_PRE && HLOG_PRE && LOW_PRE)
__CPROVER_assigns(info->tasks, DIAG_FRAME, HLOG_FRAME, g_lowfail)
__CPROVER_ensures((RV == 0) == (g_tf_task == NULL && g_ttf_type != NULL && g_lowfail == OLD(g_lowfail)))
__CPROVER_ensures(RV == 0 || RV == -1)
__CPROVER_ensures(RV != 0 || (g_hadd_n == OLD(g_hadd_n) + 1 && g_hadd_key == task_id &&
	g_hadd_head == (void *) &info->tasks && __CPROVER_is_fresh(g_hadd_item, sizeof(struct task)) &&
	NEWTASK->id == task_id && NEWTASK->type == g_ttf_type && NEWTASK->flags == flags &&
	NEWTASK->nbodies == 0 && NEWTASK->body_info.bodies == NULL &&
	((OLD(info->tasks) == NULL && info->tasks == NEWTASK) || (OLD(info->tasks) != NULL && info->tasks == OLD(info->tasks)))))
__CPROVER_ensures(RV == 0 || (g_err > OLD(g_err) && info->tasks == OLD(info->tasks) && g_hadd_n == OLD(g_hadd_n)))
;

void h_task_create(void)
{
	struct task_info *info;
	uint32_t type_id, task_id, flags;
	WITNESS_ON(task_create);
	int r = task_create(info, type_id, task_id, flags);
	if (r == 0) REACH("task created");
	if (r != 0 && w_tc_dup) REACH("duplicate task id refused");
	if (r != 0 && !w_tc_dup && !w_tc_type) REACH("unknown type refused");
	if (r != 0 && !w_tc_dup && w_tc_type) REACH("refused by calloc failure only");
}

/* ---------------- create_body (static) ----------------
 * a body is created exactly when (the task is parallel or has no body yet), the
 * body id is non-zero and not yet used in this task, and no lower layer failed.
 * It carries exactly the body flags derived from the task flags. */
struct body *cr_create_body(struct task *task, uint32_t body_id)
__CPROVER_requires(__CPROVER_is_fresh(task, sizeof(*task)) && task->nbodies >= 0 && task->nbodies < LONGMAX)
__CPROVER_requires(g_bf_info == &task->body_info && g_bf_id == body_id)
__CPROVER_requires(DIAG_PRE_R && HLOG_PRE_R && LOW_PRE_R)
__CPROVER_assigns(task->nbodies, task->body_info.bodies, DIAG_FRAME, HLOG_FRAME, g_lowfail)
__CPROVER_ensures((RV != NULL) == (((task->flags & TASK_FLAG_PARALLEL) || OLD(task->nbodies) == 0) &&
	body_id != 0 && g_bf_body == NULL && g_lowfail == OLD(g_lowfail)))
__CPROVER_ensures(RV == NULL || (__CPROVER_is_fresh(RV, sizeof(struct body)) &&
	RV->id == body_id && RV->state == BODY_ST_CREATED && RV->flags == BFLAGS(task->flags) && RV->stack == NULL &&
	RV->iteration == 0 && RV->task == task && RV->next == NULL && RV->prev == NULL &&
	task->nbodies == OLD(task->nbodies) + 1))
__CPROVER_ensures(RV == NULL || (g_hadd_n == OLD(g_hadd_n) + 1 && __CPROVER_pointer_equals(g_hadd_item, (void *) RV) && g_hadd_key == body_id &&
	g_hadd_head == (void *) &task->body_info.bodies &&
	((OLD(task->body_info.bodies) == NULL && task->body_info.bodies == RV) ||
	 (OLD(task->body_info.bodies) != NULL && task->body_info.bodies == OLD(task->body_info.bodies)))))
__CPROVER_ensures(RV != NULL || (g_err > OLD(g_err) && task->nbodies == OLD(task->nbodies) &&
	task->body_info.bodies == OLD(task->body_info.bodies) && g_hadd_n == OLD(g_hadd_n)))
__CPROVER_ensures(ERR_BOUNDED_N(8u) && LOW_BOUNDED)
;

void h_create_body(void)
{
	struct task *task;
	uint32_t body_id;
	struct body *present = nondet_bool() ? NULL : malloc(sizeof(struct body));
	g_bf_body = present;
	struct body *b = create_body(task, body_id);
	if (b != NULL) REACH("body created");
	if (b == NULL && present == NULL && body_id != 0) REACH("second body of a non-parallel task (or lower layer) refused");
	if (b == NULL && present != NULL) REACH("duplicate body id refused");
}

/* ---------------- task_execute / pause / resume / end ----------------
 * BS: the thread's body stack; FB: the body found under (task, body_id) or NULL */
#define BS (&stack->body_stack)
#define FB g_bf_body
#define TASK_PRE \
	__CPROVER_is_fresh(stack, sizeof(*stack)) && \
	(task == NULL || (__CPROVER_is_fresh(task, sizeof(*task)) && task->nbodies >= 0 && task->nbodies < LONGMAX && \
		g_bf_info == &task->body_info && g_bf_id == body_id)) && \
	SHAPE_REST(BS, FB) && (FB == NULL || FB->iteration < LONGMAX) && \
	DIAG_PRE && HLOG_PRE && LOW_PRE
#define NEST_OK(st) ((st)->top == NULL || (st)->top->state != BODY_ST_RUNNING || ((st)->top->flags & BODY_FLAG_RELAX_NESTING))
#define NEWBODY ((struct body *) g_hadd_item)

int g_found;        /* a body with this id exists in the task */
int w_t_null, w_t_nbodies0, w_t_bid0; unsigned w_t_flags;
WITNESS(task_op);
#define TASK_WIT WBIND(task_op, w_t_null == (task == NULL) && (task == NULL || \
	(w_t_flags == task->flags && w_t_nbodies0 == (task->nbodies == 0))) && w_t_bid0 == (body_id == 0) && \
	BIND_WITNESS(BS, FB))

int c_task_execute(struct task_stack *stack, struct task *task, uint32_t body_id)
__CPROVER_requires(TASK_PRE)
__CPROVER_requires(TASK_WIT)
__CPROVER_requires(g_found == (FB != NULL) && g_old_top == BS->top)
__CPROVER_requires(FB == NULL || (g_old_iter == FB->iteration && g_old_state == (int) FB->state))
/* legal: the existing body may execute, or a first (or parallel) body can be created and nested */
__CPROVER_requires(g_legal == (task != NULL && (
	(FB != NULL && LEGAL_EXECUTE(BS, FB)) ||
	(FB == NULL && ((task->flags & TASK_FLAG_PARALLEL) || task->nbodies == 0) && body_id != 0 && NEST_OK(BS)))))
__CPROVER_assigns(stack->body_stack.top, DIAG_FRAME, HLOG_FRAME, g_lowfail)
__CPROVER_assigns(task != NULL: task->nbodies, task->body_info.bodies)
__CPROVER_assigns(FB != NULL: FB->state, FB->iteration, FB->stack, FB->next, FB->prev)
__CPROVER_assigns(stack->body_stack.top != NULL: stack->body_stack.top->prev)
__CPROVER_ensures((RV == 0) == (g_legal && (g_found || g_lowfail == OLD(g_lowfail))))
__CPROVER_ensures(RV == 0 || RV == -1)
/* accepted, existing body: it runs on top of this thread; nothing is created */
__CPROVER_ensures(RV != 0 || !g_found || (
	FB->state == BODY_ST_RUNNING && FB->stack == BS && BS->top == FB && FB->next == g_old_top && BODY_WF(FB) &&
	FB->iteration == g_old_iter + (g_old_state == BODY_ST_DEAD ? 1 : 0) &&
	task->nbodies == OLD(task->nbodies) && g_hadd_n == OLD(g_hadd_n)))
/* accepted, no such body: exactly one body is created with this id and the flags
 * derived from the task's, inserted in the task's map, and it runs on top */
__CPROVER_ensures(RV != 0 || g_found || (
	g_hadd_n == OLD(g_hadd_n) + 1 && g_hadd_key == body_id && g_hadd_head == (void *) &task->body_info.bodies))
__CPROVER_ensures(RV != 0 || g_found || (
	NEWBODY->id == body_id && NEWBODY->flags == BFLAGS(task->flags) && NEWBODY->task == task))
__CPROVER_ensures(RV != 0 || g_found || (
	NEWBODY->state == BODY_ST_RUNNING && NEWBODY->stack == BS && BS->top == NEWBODY && NEWBODY->next == g_old_top))
__CPROVER_ensures(RV != 0 || g_found || (
	NEWBODY->iteration == 0 && task->nbodies == OLD(task->nbodies) + 1))
/* refused: the thread's stack is untouched and a diagnostic says why */
__CPROVER_ensures(RV == 0 || (BS->top == g_old_top && g_err > OLD(g_err)))
__CPROVER_ensures(RV == 0 || task == NULL || !g_found || (task->nbodies == OLD(task->nbodies) && g_hadd_n == OLD(g_hadd_n)))
;

void h_task_execute(void)
{
	struct task_stack *stack;
	struct task *task;
	uint32_t body_id;
	WITNESS_ON(task_op);
	int r = task_execute(stack, task, body_id);
	if (r == 0 && g_found) REACH("existing body executes");
	if (r == 0 && g_found && g_old_state == BODY_ST_DEAD) REACH("dead resurrectable body executes again");
	if (r == 0 && !g_found) REACH("new body created and executes");
	if (r == 0 && !g_found && g_old_top != NULL) REACH("new body nested over a non-empty stack");
	if (r == 0 && !g_found && (w_t_flags & TASK_FLAG_PARALLEL) && !w_t_nbodies0) REACH("further body of a parallel task");
	if (r != 0 && !w_t_null && g_found) REACH("existing body refused");
	if (r != 0 && !w_t_null && !g_found && !w_t_nbodies0) REACH("second body of a non-parallel task refused");
	if (r != 0 && !w_t_null && !g_found && w_t_bid0) REACH("body id 0 refused");
}

#define TASK_SIMPLE_FRAME \
	__CPROVER_assigns(DIAG_FRAME) \
	__CPROVER_assigns(FB != NULL: FB->state)

int c_task_pause(struct task_stack *stack, struct task *task, uint32_t body_id)
__CPROVER_requires(TASK_PRE)
__CPROVER_requires(TASK_WIT)
__CPROVER_requires(g_found == (FB != NULL) && g_old_top == BS->top && (FB == NULL || g_old_state == (int) FB->state))
__CPROVER_requires(g_legal == (task != NULL && LEGAL_PAUSE(BS, FB)))
TASK_SIMPLE_FRAME
__CPROVER_ensures((RV == 0) == (g_legal != 0))
__CPROVER_ensures(RV == 0 || RV == -1)
__CPROVER_ensures(RV != 0 || (FB->state == BODY_ST_PAUSED && BODY_WF(FB) && BS->top == FB))
__CPROVER_ensures(RV == 0 || (g_err > OLD(g_err) && (FB == NULL || (int) FB->state == g_old_state)))
;

void h_task_pause(void)
{
	struct task_stack *stack;
	struct task *task;
	uint32_t body_id;
	WITNESS_ON(task_op);
	int r = task_pause(stack, task, body_id);
	if (r == 0) REACH("pause accepted");
	if (r != 0 && !w_t_null && !g_found) REACH("pause of a missing body refused");
	if (r != 0 && !w_t_null && g_found && g_old_state == BODY_ST_RUNNING) REACH("pause of a running body refused");
}

int c_task_resume(struct task_stack *stack, struct task *task, uint32_t body_id)
__CPROVER_requires(TASK_PRE)
__CPROVER_requires(TASK_WIT)
__CPROVER_requires(g_found == (FB != NULL) && g_old_top == BS->top && (FB == NULL || g_old_state == (int) FB->state))
__CPROVER_requires(g_legal == (task != NULL && LEGAL_RESUME(BS, FB)))
TASK_SIMPLE_FRAME
__CPROVER_ensures((RV == 0) == (g_legal != 0))
__CPROVER_ensures(RV == 0 || RV == -1)
__CPROVER_ensures(RV != 0 || (FB->state == BODY_ST_RUNNING && BODY_WF(FB) && BS->top == FB))
__CPROVER_ensures(RV == 0 || (g_err > OLD(g_err) && (FB == NULL || (int) FB->state == g_old_state)))
;

void h_task_resume(void)
{
	struct task_stack *stack;
	struct task *task;
	uint32_t body_id;
	WITNESS_ON(task_op);
	int r = task_resume(stack, task, body_id);
	if (r == 0) REACH("resume accepted");
	if (r != 0 && !w_t_null && !g_found) REACH("resume of a missing body refused");
	if (r != 0 && !w_t_null && g_found && g_old_state == BODY_ST_PAUSED) REACH("resume of a paused body refused");
}

int c_task_end(struct task_stack *stack, struct task *task, uint32_t body_id)
__CPROVER_requires(TASK_PRE)
__CPROVER_requires(TASK_WIT)
__CPROVER_requires(g_found == (FB != NULL) && g_old_top == BS->top &&
	(FB == NULL || (g_old_state == (int) FB->state && g_old_next == FB->next)))
__CPROVER_requires(g_legal == (task != NULL && LEGAL_END(BS, FB)))
__CPROVER_assigns(stack->body_stack.top, DIAG_FRAME)
__CPROVER_assigns(FB != NULL: FB->state, FB->stack)
__CPROVER_assigns(FB != NULL && stack->body_stack.top == FB && FB->next != NULL: FB->next->prev)
__CPROVER_ensures((RV == 0) == (g_legal != 0))
__CPROVER_ensures(RV == 0 || RV == -1)
__CPROVER_ensures(RV != 0 || (FB->state == BODY_ST_DEAD && FB->stack == NULL && BODY_WF(FB) && BS->top == g_old_next))
__CPROVER_ensures(RV == 0 || (BS->top == g_old_top && g_err > OLD(g_err) && (FB == NULL || (int) FB->state == g_old_state)))
;

void h_task_end(void)
{
	struct task_stack *stack;
	struct task *task;
	uint32_t body_id;
	WITNESS_ON(task_op);
	int r = task_end(stack, task, body_id);
	if (r == 0) REACH("end accepted");
	if (r == 0 && g_old_next != NULL) REACH("end accepted with a body below");
	if (r != 0 && !w_t_null && !g_found) REACH("end of a missing body refused");
	if (r != 0 && !w_t_null && g_found) REACH("end of an existing body refused");
}
